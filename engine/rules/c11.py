"""C11 — a steady-state log call neither allocates nor formats on the caller: effect analysis over the IR call graph."""
import os
import re

import qir
import qlib
from qlib import AnalysisBroken
import gen_macros

TECHNIQUE = "static analysis: effect analysis (call-graph reachability with named cold edges) over -O0 LLVM IR of witness instantiations"
EXPLANATION = ("Effect analysis on the -O0 LLVM-IR call graph of witness instantiations compiled against the current tree (nothing is "
               "inlined, compiler-generated calls are edges). R1: from every hot root — the log call for the four queue types over "
               "arithmetic, enum, pointer, C-string (twelve per statement), std::string/string_view, StringRef, the std containers, "
               "optional, pair, tuple, chrono and trivially-copyable / placement deferred-format user types, nested — no path reaches "
               "an allocator (operator new/new[], malloc family, mmap) except through a named cold edge (first call of the thread, "
               "buffer growth, error construction, the 13th cached length); external functions without a body are denied by default "
               "unless on the no-allocation allowlist; indirect calls are allowed only for the user clock. R3: no hot root reaches a "
               "fmt formatting entry point or references a formatter thunk, while the positive controls (a direct-format type, "
               "std::filesystem::path) must be reported, proving the rule bites. R4: every log macro's expansion reaches nothing "
               "else. Induction over type structure: a container codec calls only its element codecs, so the instantiated base and "
               "step cases cover every combination."
               ' R5 (= C04.R2): every size pass starts from an empty size cache. R6 (= C09.R1): the consumer publishes its read position after a batch and when drained.'
               " R7 (= C09.R3): every read pass that consumed bytes commits them (else the producer grows a nearly empty queue). R8: no path to the 'maximum reached: return nullptr' exit of _handle_full_queue constructs a string, an exception object or a node.")
NOT_DECIDED = ("Page faults / first touch of the mapped ring, allocations inside user copy constructors of placement-deferred types and "
               "inside user clocks (excluded by the property), the 13th variable-length string of one statement.")
ASSUMPTIONS = ["libstdc++ externals on the allowlist do not allocate (size/data accessors, tree/list iteration, clocks, nanosleep)",
               "-O0 IR contains a call edge for every call the optimised build can make (inlining only removes edges)"]

ALLOC = re.compile(r"^(operator new(\[\])?\(unsigned long(, std::align_val_t)?(, std::nothrow_t const&)?\)|malloc|calloc|realloc|posix_memalign|"
                   r"aligned_alloc|memalign|valloc|mmap|mmap64|mremap|brk|sbrk)$")
STR = r"std::__cxx11::basic_string<char, std::char_traits<char>, std::allocator<char> >"
# externals (no body in the IR) confirmed not to allocate; anything else reachable from a hot root is reported
EXTERNAL_OK = [
    r"^memchr$", r"^memcmp$", r"^nanosleep$", r"^sched_yield$", r"^__errno_location$", r"^clock_gettime$",
    r"^std::chrono::_V2::(system_clock|steady_clock)::now\(\)$",
    r"^std::_Rb_tree_(increment|decrement)\(std::_Rb_tree_node_base( const)?\*\)$",
    r"^" + re.escape(STR) + r"::(data|length|size|c_str|empty|capacity|begin|end|_M_data|_M_local_data)\(\)( const)?$",
    r"^" + re.escape(STR) + r"::operator std::basic_string_view<char, std::char_traits<char> >\(\) const$",
    r"^std::terminate\(\)$", r"^__cxa_begin_catch$", r"^__cxa_end_catch$", r"^__clang_call_terminate$",
    r"^operator delete(\[\])?\(void\*(, unsigned long)?(, std::align_val_t)?\)$",
    r"^std::exception::~exception\(\)$", r"^_Unwind_Resume$", r"^__cxa_pure_virtual$",
    r"^__cxa_guard_(acquire|release|abort)$", r"^__tls_get_addr$", r"^__cxa_atexit$",
    r"^std::this_thread::__sleep_for\(", r"^pthread_self$",
    r"^qv_arg\(\)$", r"^qv_level\(\)$",  # argument markers of the macro witness
]
EXTERNAL_OK_RE = [re.compile(x) for x in EXTERNAL_OK]

COLD = [
    (r"", r"quill::v\d+::detail::get_local_thread_context<", "first log call of the thread / preallocate(): the thread context and queue are allocated once"),
    (r"", r"UnboundedSPSCQueue::_handle_full_queue\(", "the statement does not fit the current buffer (excluded by the property)"),
    (r"", r"quill::v\d+::QuillError::QuillError\(", "error path: constructing the exception object"),
    (r"", r"^__cxa_(allocate_exception|throw|free_exception|rethrow)$", "error path"),
    (r"InlinedVector<unsigned int, 12ul>::push_back\(", r"^operator new\[\]\(unsigned long\)$",
     "13th cached string length: beyond the size cache's inline capacity (excluded by the property)"),
]
COLD_RE = [(re.compile(a), re.compile(b), why) for (a, b, why) in COLD]

FORMAT_ENTRY = re.compile(r"fmtquill::v\d+::(detail::)?(vformat_to|vformat|format_to_n|vformat_to_n|formatted_size|format_to|format|vprint|print)\b[<(]")
FORMATTER_THUNK = re.compile(r"(format_custom<|fmtquill::v\d+::formatter<.*>::format[<(])")


def cut(a, b):
    for (ra, rb, _why) in COLD_RE:
        if rb.search(b) and ra.search(a):
            return True
    return False


def shorten(n):
    n = n.replace(STR, "std::string")
    n = re.sub(r"quill::v\d+::", "quill::", n)
    if len(n) > 160:
        n = n[:157] + "..."
    return n


def fn_only(n):
    """demangled name without parameter list, shortened"""
    n = n.replace(STR, "std::string")
    n = re.sub(r"quill::v\d+::", "quill::", n)
    depth = 0
    for i, ch in enumerate(n):
        if ch == "<":
            depth += 1
        elif ch == ">":
            depth -= 1
        elif ch == "(" and depth == 0 and i > 0:
            n = n[:i]
            break
    return n if len(n) <= 140 else n[:137] + "..."


_REFS_CACHE = {}


def refs_of(path, wanted):
    """symbols referenced (not called) inside the bodies of the functions in `wanted` (set of mangled names)"""
    if path not in _REFS_CACHE:
        _REFS_CACHE[path] = _refs_all(path)
    allr = _REFS_CACHE[path]
    return {f: allr[f] for f in wanted if f in allr}


def _refs_all(path):
    out = {}
    cur = None
    sym = re.compile(r'@("[^"]+"|_Z[\w.$]+)')
    with open(path) as fh:
        for line in fh:
            if line.startswith("define"):
                m = qir.DEFINE_RE.match(line)
                cur = m.group(1).strip('"') if m else None
                continue
            if line.startswith("}"):
                cur = None
                continue
            if cur is None:
                continue
            called = set(m.group(1).strip('"') for m in qir.CALL_RE.finditer(line) if m.group(1))
            for m in sym.finditer(line):
                s = m.group(1).strip('"')
                if s not in called:
                    out.setdefault(cur, set()).add(s)
    return out


def analyse_roots(ctx, cg, path, roots, label, expect_clean, rule):
    """returns number of offending findings; records one obligation per root"""
    nbad = 0
    for r in roots:
        rname = fn_only(cg.name(r))
        parent = cg.reach([r], cut)
        bad = []
        for n in parent:
            nm = cg.name(n)
            if ALLOC.match(nm):
                bad.append(("allocator", n))
            elif n not in cg.defined:
                if nm.startswith("llvm."):
                    continue
                if not any(rx.search(nm) for rx in EXTERNAL_OK_RE):
                    bad.append(("external outside the no-allocation allowlist", n))
        fmt = [n for n in parent if FORMAT_ENTRY.search(cg.name(n))]
        refs = refs_of(path, set(parent))
        thunks = [(f, s) for f, ss in refs.items() for s in ss if FORMATTER_THUNK.search(cg.name(s) if s in cg.dem else qir.demangle([s]).get(s, s))]
        indirect = [(n, cg.indirect[n]) for n in parent if cg.indirect.get(n)]
        ind_bad = [(n, k) for (n, k) in indirect if not re.search(r"LoggerImpl<.*>::log_statement<", cg.name(n)) or k > 1]
        detail = {"reachable_functions": len(parent)}
        if bad:
            detail["first_chain"] = [fn_only(x) for x in cg.chain(parent, bad[0][1])]
            detail["offending"] = sorted(set("%s: %s" % (k, shorten(cg.name(n))) for (k, n) in bad))[:12]
        if fmt:
            detail["format_chain"] = [fn_only(x) for x in cg.chain(parent, fmt[0])]
        if thunks:
            detail["formatter_reference"] = ["%s references %s" % (fn_only(cg.name(f)), shorten(qir.demangle([s]).get(s, s))) for (f, s) in thunks[:4]]
        if ind_bad:
            detail["indirect_calls"] = ["%s (%d)" % (fn_only(cg.name(n)), k) for (n, k) in ind_bad[:6]]
        ctx.functions.add((cg.name(r)[:200], "A"))
        if expect_clean:
            ok_alloc = not bad
            what = "no allocator and no unknown external is reachable from %s except through the named cold edges (%d functions reachable)" % (rname, len(parent))
            if bad:
                what += " — " + "; ".join(detail["offending"][:3]) + " via " + " -> ".join(detail["first_chain"][-4:])
            ctx.ob(rule + ".R1", label + ":" + rname + ":no-allocation", ok_alloc, what, loc="witness/" + os.path.basename(label), detail=detail)
            ok_fmt = not fmt and not thunks
            what = "no fmt formatting entry point is reachable and no formatter thunk is referenced on the calling thread from %s" % rname
            if fmt:
                what += " — reaches " + fn_only(cg.name(fmt[0])) + " via " + " -> ".join(detail["format_chain"][-4:])
            if thunks:
                what += " — " + detail["formatter_reference"][0]
            ctx.ob(rule + ".R3", label + ":" + rname + ":no-formatting", ok_fmt, what, loc="witness/" + os.path.basename(label), detail=detail)
            if ind_bad:
                ctx.ob(rule + ".R1i", label + ":" + rname + ":indirect-calls", False,
                       "an indirect call other than the user clock lies on the hot path: " + "; ".join(detail["indirect_calls"]), detail=detail)
            nbad += (0 if ok_alloc else 1) + (0 if ok_fmt else 1)
        else:
            # positive control: must be caught
            caught = bool(bad) or bool(fmt) or bool(thunks)
            if not caught:
                raise AnalysisBroken("positive control %s is not reported: the effect rule does not bite" % rname)
            ctx.ob(rule + ".R3c", label + ":" + rname + ":control-detected", True,
                   "positive control: the documented exclusion %s IS reported by the rule (%s)" %
                   (rname, (detail.get("offending") or [fn_only(cg.name(fmt[0]))] if fmt or bad else detail.get("formatter_reference"))[0]),
                   detail=detail)
    return nbad


def run(ctx):
    path = qir.emit_ir("effects.cpp", "A")
    cg = qir.CallGraph(path)
    ctx.units.add(("effects.cpp(IR)", "A"))
    hot = sorted(cg.find(r"^void qv::hot_\w+<qv::FO_"))
    ctx.floor("C11.R1", "hot roots (argument families x queue types)", len(hot), 24)
    analyse_roots(ctx, cg, path, hot, "effects.cpp", True, "C11")
    controls = sorted(cg.find(r"^void qv::control_\w+<qv::FO_"))
    ctx.floor("C11.R3c", "positive controls", len(controls), 8)
    analyse_roots(ctx, cg, path, controls, "effects.cpp", False, "C11")
    # the cold edges really are what makes the first call allocate: preallocate() must reach an allocator when nothing is cut
    pre = cg.find(r"^void qv::cold_preallocate<")
    if pre:
        p = cg.reach(pre, None)
        reaches = any(ALLOC.match(cg.name(n)) for n in p)
        ctx.ob("C11.R1p", "effects.cpp:preallocate-allocates", reaches,
               "sanity of the graph: preallocate() (first use of the thread context) does reach an allocator when no edge is cut")
    # ... and for every queue type: preallocate() is the documented way to take the one-time allocation off the first log call, so
    # it must reach the creation of the thread context (the target of the cold edge that the hot roots are allowed to cross)
    ctx.floor("C11.R1q", "preallocate roots (queue types)", len(pre), 4)
    for r in sorted(pre):
        p = cg.reach([r], None)
        ok = any(re.search(r"detail::get_local_thread_context<", cg.name(n)) for n in p) and any(ALLOC.match(cg.name(n)) for n in p)
        ctx.ob("C11.R1q", "effects.cpp:%s:creates-thread-context" % cg.name(r).replace("void qv::", "")[:60], ok,
               "preallocate() reaches get_local_thread_context (and through it the allocation of the context and its queue): after it "
               "the first log call of the thread has nothing left to allocate")
    # every named cold edge is exercised (a vanished cold edge means the table is stale)
    seen = set()
    for r in hot:
        for x in cg.reach([r], None):
            for y in cg.edges.get(x, ()):
                for i, (ra, rb, why) in enumerate(COLD_RE):
                    if rb.search(cg.name(y)) and ra.search(cg.name(x)):
                        seen.add(i)
    for i, (a, b, why) in enumerate(COLD):
        ctx.ob("C11.R1e", "cold-edge#%d" % i, True, "named cold edge (%s -> %s): %s [%s on this tree]" %
               (a or "*", b, why, "exercised" if i in seen else "not exercised"))
    # backend side: the same formatter IS reachable from the decoder thunk (positive direction of R3)
    dec = cg.find(r"decode_and_store_args<.*qv::Deferred")
    if not dec:
        raise AnalysisBroken("decode_and_store_args<qv::Deferred> not instantiated")
    p = cg.reach(dec, None)
    refs = refs_of(path, set(p))
    has_thunk = any(FORMATTER_THUNK.search(qir.demangle([s]).get(s, s)) for ss in refs.values() for s in ss)
    ctx.ob("C11.R3b", "effects.cpp:decoder-carries-formatter", has_thunk,
           "the user formatter of a deferred-format type is bound on the backend side (referenced from decode_and_store_args), not by the log call")
    # the per-thread size cache stays within its inline capacity only because every size pass starts from an empty cache, whether or not
    # the statement is then dropped before the encode pass (= C04.R2: an ever growing cache allocates on the hot path)
    from rules import c04
    from rules.c09 import Renamed
    c04.cache_rules(Renamed(ctx, "C04.R2", "C11.R5"), ctx.facts("effects.cpp", "A", ()))
    # an unbounded queue grows (allocates, on the caller) when the producer believes the node is full: the consumer publishes what it
    # has read after every batch and when it has drained the node (= C09.R1), so that belief is never staler than one batch
    from rules import c09
    for cfg in ("A", "C"):
        cf = ctx.facts("core.cpp", cfg)
        for crec in cf.cls_all("quill::detail::BoundedSPSCQueueImpl", cfg):
            c09.check_drain_publish(Renamed(ctx, "C09.R1", "C11.R6"), cf, cfg, crec)
    # ... and every read pass that consumed bytes commits them before it leaves (= C09.R3): a pass that returns early with bytes consumed
    # but not committed leaves the producer computing its free space from a stale position — it allocates a new node although the queue
    # is almost empty
    c09.check_commit_after_pass(Renamed(ctx, "C09.R3", "C11.R7"), ctx.facts("core.cpp", "A"), "A")
    r8_refusal_path_builds_nothing(ctx, ctx.facts("core.cpp", "A"))
    if ctx.tier == "thorough":
        macro_tier(ctx)
        matrix_tier(ctx)


def r8_refusal_path_builds_nothing(ctx, facts):
    """R8: _handle_full_queue is a cold edge of the effect analysis as a whole (growing the queue allocates, excluded by the property). One
    of its exits is not growth: 'the maximum is reached, return nullptr' — the caller drops the statement or polls again, thousands of times
    while the backend is behind. On the paths to that exit nothing is constructed or formatted: no std::string / QuillError / to_string /
    operator+ / new. (The throw exit — a single statement larger than the maximum — and the growth exit may.)"""
    from qlib import is_null, is_call, isnode
    fs = facts.need("quill::detail::UnboundedSPSCQueue::_handle_full_queue", "A")
    f = fs[0]
    g = f.g
    nulls = g.return_nodes(lambda r: is_null(r.get("val")))
    if not nulls:
        raise AnalysisBroken("_handle_full_queue: no 'return nullptr' exit (the refusal at the maximum capacity)")
    heavy = [n for n in f.walk() if n["k"] == "CXXNewExpr" or
             (is_call(n) and re.search(r"basic_string|QuillError|to_string|^std::operator\+|operator new|vformat|fmtquill::", n.get("callee") or "")) or
             (n["k"] in ("CXXConstructExpr", "CXXTemporaryObjectExpr") and re.search(r"basic_string|QuillError", n.get("callee") or n.get("ty") or ""))]
    on_path = []
    for n in heavy:
        ps = g.positions(n)
        if ps and g.exists_path([g.entry_node], ps) and g.exists_path(ps, nulls):
            on_path.append("%s at %s" % ((n.get("callee") or n["k"])[:60], n.get("loc")))
    ctx.floor("C11.R8", "constructing / formatting sites in _handle_full_queue (the error text of the throw exit, the new node)", len(heavy), 2)
    ctx.ob("C11.R8", "UnboundedSPSCQueue::_handle_full_queue:refusal-builds-nothing", not on_path,
           "no path to the 'maximum reached: return nullptr' exit — taken by every log call and every blocking retry while the queue is full "
           "at its maximum — constructs a string, an exception object or a node (%d such site(s) in the function, on a refusing path: %s)"
           % (len(heavy), "; ".join(sorted(set(on_path))[:4]) or "none"), fn=f)


def macro_tier(ctx):
    path, table, gens = gen_macros.generate(())
    ir = qir.emit_ir(path, "A")
    cg = qir.CallGraph(ir)
    ctx.units.add(("macros(IR)", "A"))
    roots = sorted(cg.find(r"^qvm::m_\w+\("))
    ctx.floor("C11.R4", "log macro witness functions", len(roots), 200)
    analyse_roots(ctx, cg, ir, roots, "macros", True, "C11.R4")


BASE = ["int", "double", "short", "char", "unsigned long", "qv::Colour", "void const*", "char const*", "std::string", "std::string_view",
        "qv::Deferred", "std::chrono::seconds"]
ORDERED = ["int", "std::string", "double", "unsigned long", "char"]


def matrix_tier(ctx):
    """full type matrix: every container codec over every base element type, one level of nesting, all key x value pairs"""
    lines = ['#include "effects.cpp"', "namespace qv {"]
    types = []
    for e in BASE:
        for c in ("std::vector<%s>", "std::deque<%s>", "std::list<%s>", "std::forward_list<%s>", "std::array<%s, 2>", "std::optional<%s>"):
            types.append(c % e)
        types.append("std::pair<%s, int>" % e)
        types.append("std::tuple<%s, %s, int>" % (e, e))
    for e in ORDERED:
        types.append("std::set<%s>" % e)
        types.append("std::multiset<%s>" % e)
        types.append("std::unordered_set<%s>" % e)
        for v in BASE:
            types.append("std::map<%s, %s>" % (e, v))
            types.append("std::unordered_map<%s, %s>" % (e, v))
    nested = []
    for t in types[::7]:
        nested.append("std::vector<%s>" % t)
        nested.append("std::optional<%s>" % t)
    types += nested
    for i, t in enumerate(types):
        lines.append("template <typename FO> void hot_m%d(quill::LoggerImpl<FO>* l, %s const& v) { LOG_INFO(l, \"{}\", v); }" % (i, t))
        lines.append("template void hot_m%d<FO_BoundedBlocking>(quill::LoggerImpl<FO_BoundedBlocking>*, %s const&);" % (i, t))
        if i % 5 == 0:
            lines.append("template void hot_m%d<FO_UnboundedDropping>(quill::LoggerImpl<FO_UnboundedDropping>*, %s const&);" % (i, t))
    lines.append("}")
    src = "\n".join(lines) + "\n"
    import hashlib
    os.makedirs(qlib.CACHE, exist_ok=True)
    path = os.path.join(qlib.CACHE, "effects_matrix-%s.cpp" % hashlib.sha256(src.encode()).hexdigest()[:12])
    if not os.path.exists(path):
        with open(path, "w") as fh:
            fh.write(src)
    ir = qir.emit_ir(path, "A")
    cg = qir.CallGraph(ir)
    ctx.units.add(("effects_matrix(IR)", "A"))
    roots = sorted(cg.find(r"^void qv::hot_m\d+<qv::FO_"))
    ctx.floor("C11.R1m", "type-matrix hot roots", len(roots), len(types))
    analyse_roots(ctx, cg, ir, roots, "effects_matrix", True, "C11.M")
