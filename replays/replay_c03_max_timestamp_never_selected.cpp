// C03 / C07: a statement whose (user clock) timestamp is UINT64_MAX is accepted but never chosen by
// BackendWorker::_process_lowest_timestamp_transit_event: the search starts from min_ts = UINT64_MAX and takes a candidate only when
// min_ts > candidate. The statement is never written and poll() / Backend::stop() never return.
#include "quill/Backend.h"
#include "quill/Frontend.h"
#include "quill/LogMacros.h"
#include "quill/Logger.h"
#include "quill/UserClockSource.h"
#include "quill/sinks/Sink.h"
#include <atomic>
#include <chrono>
#include <cstdio>
#include <limits>
#include <thread>
struct Clk : quill::UserClockSource { std::atomic<uint64_t> v{1000}; uint64_t now() const override { return v.load(); } };
struct Cnt : quill::Sink { std::atomic<int> n{0};
  void write_log(quill::MacroMetadata const*, uint64_t, std::string_view, std::string_view, std::string const&, std::string_view,
                 quill::LogLevel, std::string_view, std::string_view, std::vector<std::pair<std::string, std::string>> const*, std::string_view, std::string_view) override { ++n; }
  void flush_sink() override {} };
int main() {
  Clk clk;
  auto sink = quill::Frontend::create_or_get_sink<Cnt>("cnt");
  auto* l = quill::Frontend::create_or_get_logger("root", sink, quill::PatternFormatterOptions{}, quill::ClockSourceType::User, &clk);
  quill::ManualBackendWorker* w = quill::Backend::acquire_manual_backend_worker();
  w->init(quill::BackendOptions{});
  LOG_INFO(l, "first");
  clk.v = std::numeric_limits<uint64_t>::max();
  LOG_INFO(l, "stamped with the largest value the clock can return");
  for (int i = 0; i < 1000; ++i) w->poll_one();
  int n = static_cast<Cnt*>(sink.get())->n.load();
  std::printf("2 statements accepted, %d written after 1000 backend passes: %s\n", n, n == 2 ? "OK" : "STATEMENT NEVER SELECTED");
  std::fflush(stdout);
  if (n != 2) std::_Exit(1);   // the destructor of the manual worker would drain for ever
  return 0;
}
