// C04: "for every combination of argument types ... the text equals formatting the arguments at the call site". Codec<std::tuple<...>>::
// decode_arg decodes each element with the codec of the *decoded* type (Codec<decay_t<decltype(elem)>>), not of the type that was
// encoded: for quill::utility::StringRef the encoder writes {pointer, size}, the decoded type is std::string_view, whose codec reads
// {size, bytes}: the backend reads a pointer as a length and runs off the buffer. (Codec<std::pair<T1,T2>> uses Codec<T1>, Codec<T2>.)
#include "quill/Backend.h"
#include "quill/Frontend.h"
#include "quill/LogMacros.h"
#include "quill/Logger.h"
#include "quill/StringRef.h"
#include "quill/sinks/Sink.h"
#include "quill/std/Pair.h"
#include "quill/std/Tuple.h"
#include <cstdio>
#include <string>
#include <vector>
struct Rec : quill::Sink { std::vector<std::string> got;
  void write_log(quill::MacroMetadata const*, uint64_t, std::string_view, std::string_view, std::string const&, std::string_view,
                 quill::LogLevel, std::string_view, std::string_view, std::vector<std::pair<std::string, std::string>> const*, std::string_view msg, std::string_view) override { got.emplace_back(msg); }
  void flush_sink() override {} };
int main(int argc, char**) {
  quill::ManualBackendWorker* w = quill::Backend::acquire_manual_backend_worker();
  w->init(quill::BackendOptions{});
  auto sink = quill::Frontend::create_or_get_sink<Rec>("rec");
  auto* l = quill::Frontend::create_or_get_logger("root", sink);
  static std::string const text = "static text";
  LOG_INFO(l, "pair {}", std::make_pair(quill::utility::StringRef{text}, 1));
  LOG_INFO(l, "tuple {}", std::make_tuple(quill::utility::StringRef{text}, 2));
  for (int i = 0; i < 20; ++i) w->poll_one();
  auto* r = static_cast<Rec*>(sink.get());
  for (auto& s : r->got) std::printf("sink: %s\n", s.c_str());
  bool ok = r->got.size() == 2 && r->got[1] == "tuple (\"static text\", 2)";
  std::printf("%s\n", ok ? "OK" : "TUPLE ELEMENT DECODED WITH THE WRONG CODEC");
  std::fflush(stdout); std::_Exit(ok ? 0 : 1);
}
