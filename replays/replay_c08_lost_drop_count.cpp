#include "quill/Backend.h"
#include "quill/Frontend.h"
#include "quill/LogMacros.h"
#include "quill/Logger.h"
#include "quill/sinks/NullSink.h"
#include <atomic>
#include <cstdio>
#include <thread>
#include <regex>
struct FO : quill::FrontendOptions {
  static constexpr quill::QueueType queue_type = quill::QueueType::BoundedDropping;
  static constexpr size_t initial_queue_capacity = 4096;
};
using F = quill::FrontendImpl<FO>; using L = quill::LoggerImpl<FO>;
int main(int argc, char** argv){
  bool with_flush = argc < 2;   // any argument: control run without the flush
  std::atomic<long> reported{0};
  quill::BackendOptions bo; bo.error_notifier = [&](std::string const& m){ std::smatch s; if (std::regex_search(m, s, std::regex("Dropped ([0-9]+) log"))) reported += std::stol(s[1]); };
  quill::ManualBackendWorker* mw = quill::Backend::acquire_manual_backend_worker(); mw->init(bo);
  L* log = F::create_or_get_logger("l", F::create_or_get_sink<quill::NullSink>("n"));
  long attempted = 1000, accepted = 0;
  std::thread t2([&]{ for (long i=0;i<attempted;++i) { LOG_INFO(log, "x {}", i); } });
  t2.join();                       // thread exited with a full queue: some statements were dropped
  std::atomic<bool> done{false};
  std::thread f([&]{ if (with_flush) log->flush_log(0); done = true; });
  while (!done.load()) mw->poll_one();
  f.join();
  for (int i=0;i<5000;++i) mw->poll_one();   // idle passes: this is where drops are reported
  std::printf("%s: dropped-count reported through the notifier = %ld\n", with_flush ? "flush while draining" : "no flush", reported.load());
  return reported.load() > 0 ? 0 : 1;
}
