"""C14 — size rotation: statements whole, ordered, bounded (DESIGN §4 C14)."""
import re
from qlib import (AnalysisBroken, strip, isnode, walk, is_call, norm_cmp, var_ref, is_null, const_val, short, call_obj,
                  expr_key, field_name, is_this_field, var_name)
from rules.common import (core_and_neg, tnode, other, cpos, npos, branches_on_call, in_subtree, need_some, straight_after,
                          flatten, loops_enclosing)
from rules.c02 import cmp_sides

EXPLANATION = ("Rotating sink, size side. R1: write_log performs, on every path, exactly one write of the whole statement to the base "
               "sink; on the rotating path the rotation decision precedes the write, the size tested is the size of the statement "
               "about to be written and the same size is added to the tracked file size after the write. R2 (_rotate_files typestate): "
               "flush and fsync happen while the file is open, every early return lies before close_file (the sink is never left "
               "closed), renames and removal happen only between close_file and open_file, and every path from close_file reaches "
               "open_file(\"w\"), the reset of the tracked size and the new open-timestamp. R3: a file is removed only under "
               "'more files than max_backup_files', it is the oldest element of the list and is popped together with the removal; "
               "'rotation stops' is taken only when overwriting is off and before anything was renamed or removed. R4: the rename "
               "chain walks oldest to newest (reverse of the newest-at-front insertion) so no rename overwrites a file that is still "
               "to be renamed. R5 (start-up): files are deleted only under remove_old_files() and mode \"w\"; append mode re-registers and "
               "deletes nothing; recovered files are ordered newest first; the constructor recovers, opens, registers and takes the "
               "current size; a directory entry is deleted or adopted only when its name starts with '<stem>.' and has the sink's "
               "extension (unrelated files present are left alone). Checked for RotatingSink<FileSink> and RotatingSink<JsonFileSink>."
               ' R4g/R4h: the two append helpers and extract_stem_and_extension. R5l: recovered entries carry the index in their name. R6 (= C06.R5): every write marks the stream dirty. R7: every RotatingFileSinkConfig setter stores its argument itself.')
NOT_DECIDED = ("File-size arithmetic for all size sequences, the index/date parsing of recovered names (R5 decides which entries may be "
               "touched and in which mode, not what is parsed out of them), the ordering of names as values; for the JSON sink the tracked size counts the text statement, not the JSON line (noted).")
ASSUMPTIONS = ["the base sink writes the whole statement or throws (StreamSink::safe_fwrite)"]
RS = "quill::RotatingSink::"


def run(ctx):
    facts = ctx.facts("core.cpp", "A")
    wl = facts.need(RS + "write_log", "A", floor=2)
    for f in wl:
        r1(ctx, facts, f)
    for f in facts.need(RS + "_rotate_files", "A", floor=2):
        r2_r3_r4(ctx, facts, f)
        rename_chain(ctx, facts, f)
    for f in facts.need(RS + "_get_filename", "A", floor=2):
        get_filename(ctx, facts, f)
    if facts.fn_re("^" + re.escape(RS) + "_size_rotation$", "A") or any("_size_rotation" in (c.get("callee") or "") for f in wl for c in f.calls()):
        for f in facts.need(RS + "_size_rotation", "A", floor=2):
            size_rotation(ctx, f)
    else:
        # the helper merged into its only caller: the limit test and the rotation are looked for in write_log itself
        for f in wl:
            size_rotation(ctx, f, inline=True)
    for f in facts.need(RS + "_clean_and_recover_files", "A", floor=2):
        recover(ctx, facts, f)
    stream_write(ctx, facts)
    append_helpers(ctx, facts)
    config_roundtrip(ctx, facts)
    # the size check and the rename act on flushed bytes: every write marks the stream dirty, flush_sink is skipped only when clean (= C06.R5)
    from rules import c06
    from rules.c09 import Renamed
    c06.r5(Renamed(ctx, "C06.R5", "C14.R6"), facts, "A")
    ctx.note("RotatingSink<JsonFileSink> adds the size of the text statement, not of the JSON line, to the tracked size (observed; value clause)")


def inst(f):
    return f.name.split("RotatingSink<")[1].split(">")[0].replace("quill::", "")


def r1(ctx, facts, f):
    g = f.g
    site = "RotatingSink<%s>::write_log" % inst(f)
    stmt = f.rec["params"][11]["did"]
    ts = f.rec["params"][1]["did"]
    writes = [c for c in f.calls(r"::write_log$") if c.get("qualified") or "RotatingSink" not in c["callee"]]
    wp = npos(f, writes)
    cnt = g.count_on_paths([g.entry_node], [g.exit_node], wp)
    ctx.ob("C14.R1a", site + ":one-write", cnt[g.exit_node] == (1, 1),
           "every statement is written exactly once to the base sink on every path %s" % (cnt[g.exit_node],), fn=f)
    ctx.ob("C14.R1b", site + ":whole-statement", bool(writes) and all(var_ref(c["args"][11]) == stmt for c in writes),
           "the statement handed to the base sink is the whole formatted statement, unchanged", fn=f)
    nb = branches_on_call(f, r"::is_null$")
    if not nb:
        raise AnalysisBroken(site + ": is_null test not found")
    bid, tl, _c = nb[0]
    t = tnode(g, bid)
    live = g.reach([t], avoid_edges=[(bid, tl)])
    sr, srp = size_sites(f)
    tr = [c for c in f.calls(r"::_time_rotation$")]
    trp = npos(f, tr)
    live_w = [p for p in wp if p in live]
    ok = bool(srp) and bool(live_w) and not g.exists_path(live_w, srp + trp) and \
        all(is_call(strip(c["args"][0], casts=True), r"basic_string_view<.*>::(size|length)$") and var_ref(call_obj(strip(c["args"][0], casts=True))) == stmt for c in sr) and \
        all(var_ref(c["args"][1]) == ts for c in sr) and all(var_ref(c["args"][0]) == ts for c in tr)
    ctx.ob("C14.R1c", site + ":rotate-before-write", ok,
           "the rotation decision is taken before the write, for the size of this statement and its timestamp", fn=f)
    adds = [n for n in f.walk() if n["k"] == "CompoundAssignOperator" and n["op"] == "+=" and is_this_field(n["lhs"], "_file_size")]
    ap = npos(f, adds)
    ok = bool(adds) and all(is_call(strip(n["rhs"], casts=True), r"basic_string_view<.*>::(size|length)$") and var_ref(call_obj(strip(n["rhs"], casts=True))) == stmt for n in adds) and \
        all(g.dominates(live_w, p) for p in ap) and not g.exists_path(live_w, [g.exit_node], avoid_nodes=ap)
    ctx.ob("C14.R1d", site + ":size-accounting", ok,
           "after the write the tracked file size grows by the size of the statement just written, on every rotating path", fn=f)
    # size rotation only when enabled
    mx = []
    for b2, blk in g.blocks.items():
        c = g.term_cond(b2)
        if c is not None and any(is_call(x, r"::rotation_max_file_size$") for x in walk(c)):
            nc = norm_cmp(c)
            if nc and nc[0] in ("==", "!=") and "0" in (nc[1], nc[2]):
                mx.append((b2, "T" if nc[0] == "!=" else "F"))
    ok = bool(mx) and not g.exists_path([g.entry_node], srp, avoid_edges=mx)
    ctx.ob("C14.R1e", site + ":size-rotation-when-enabled", ok,
           "size rotation is consulted exactly when rotation_max_file_size is set", fn=f)
    # R1i: ... and always then, unless the time rotation has just started a new file for this statement
    holders = set()
    for n in f.walk():
        if n["k"] == "BinaryOperator" and n["op"] == "=" and var_ref(n["lhs"]) is not None and any(in_subtree(c, n["rhs"]) for c in tr):
            holders.add(var_ref(n["lhs"]))
    decls = f.var_decls()
    sound = all(const_val(decls.get(h, {}).get("init")) == 0 and
                all(any(in_subtree(c, a.get("rhs")) for c in tr) or const_val(a.get("rhs")) == 0 for a in f.assignments_to_var(h) if a["k"] == "BinaryOperator")
                for h in holders)
    fired = []
    for b2, blk in g.blocks.items():
        c = g.term_cond(b2)
        if c is None:
            continue
        core, neg = core_and_neg(c)
        if var_ref(core) in holders or any(core is c_ for c_ in tr):
            fired.append((b2, "F" if neg else "T"))
    skip_ok = not g.exists_path([t], live_w, avoid_nodes=srp, avoid_edges=[(bid, tl)] + [(b, other(l)) for (b, l) in mx] + fired)
    ctx.ob("C14.R1i", site + ":size-check-not-bypassed", bool(mx) and sound and skip_ok,
           "with a size limit set every statement passes the size check before it is written, except when the time rotation fired for "
           "this very statement (the flag that says so starts false and is set only from _time_rotation's result: %s)" % sound, fn=f)


def limit_tests(f, is_size):
    """blocks that compare rotation_max_file_size() with _file_size + <size of the statement> (normalised: limit < sum / limit <= sum)"""
    g = f.g
    out = []
    for bid, b in g.blocks.items():
        c = g.term_cond(bid)
        cs = cmp_sides(c) if c is not None else None
        if not cs:
            continue
        small, big = strip(cs[1], casts=True), strip(cs[2], casts=True)
        if is_call(small, r"::rotation_max_file_size$") and isnode(big) and big["k"] == "BinaryOperator" and big["op"] == "+":
            terms = [big["lhs"], big["rhs"]]
            if any(is_this_field(x, "_file_size") for x in terms) and any(is_size(x) for x in terms):
                out.append(bid)
    return out


def stmt_size_of(stmt):
    return lambda x: is_call(strip(x, casts=True), r"basic_string_view<.*>::(size|length)$") and var_ref(call_obj(strip(x, casts=True))) == stmt


def size_sites(f):
    """where write_log takes the size-rotation decision: the calls of the helper, or (helper merged into write_log) the limit test itself"""
    sr = [c for c in f.calls(r"::_size_rotation$")]
    if sr:
        return sr, npos(f, sr)
    stmt = f.rec["params"][11]["did"]
    lt = limit_tests(f, stmt_size_of(stmt))
    return [], [tnode(f.g, b) for b in lt]


def size_rotation(ctx, f, inline=False):
    g = f.g
    site = "RotatingSink<%s>::%s" % (inst(f), "write_log(size rotation inlined)" if inline else "_size_rotation")
    if inline:
        stmt = f.rec["params"][11]["did"]
        tsd = f.rec["params"][1]["did"]
        is_size = stmt_size_of(stmt)
        all_rot = f.calls(r"::_rotate_files$")
    else:
        szp = f.rec["params"][0]["did"]
        tsd = f.rec["params"][1]["did"]
        is_size = lambda x: var_ref(x) == szp
    rot = cpos(f, r"::_rotate_files$")
    ok = False
    if inline:
        lts = limit_tests(f, is_size)
        for bid in lts:
            # cmp_sides normalises to small < big, here limit < size + statement: the raw true edge is 'would exceed'
            after = g.reach([tnode(g, bid)], avoid_edges=[(bid, "F")])
            wp_ = npos(f, [c for c in f.calls(r"::write_log$") if c.get("qualified") or "RotatingSink" not in c["callee"]])
            ok = bool(rot) and not g.exists_path([g.entry_node], rot, avoid_edges=[(bid, "T")]) and \
                not g.exists_path([tnode(g, bid)], wp_, avoid_nodes=rot, avoid_edges=[(bid, "F")])
        ctx.ob("C14.R1f", site + ":limit-test", ok and len(lts) == 1,
               "the file is rotated exactly when tracked size + statement size would exceed the limit (so no file exceeds it unless a single "
               "statement does)", fn=f)
        ctx.ob("C14.R1g", site + ":passes-timestamp", bool(all_rot) and all(var_ref(c["args"][0]) == tsd for c in all_rot),
               "the rotation receives the statement's timestamp", fn=f)
        return
    for bid, b in g.blocks.items():
        c = g.term_cond(bid)
        cs = cmp_sides(c) if c is not None else None
        if not cs:
            continue
        small, big = strip(cs[1], casts=True), strip(cs[2], casts=True)
        if is_call(small, r"::rotation_max_file_size$") and isnode(big) and big["k"] == "BinaryOperator" and big["op"] == "+":
            terms = [big["lhs"], big["rhs"]]
            if any(is_this_field(x, "_file_size") for x in terms) and any(is_size(x) for x in terms):
                ok = bool(rot) and not g.exists_path([g.entry_node], rot, avoid_edges=[(bid, "T")]) and \
                    not g.exists_path([tnode(g, bid)], [g.exit_node], avoid_nodes=rot, avoid_edges=[(bid, "F")])
    ctx.ob("C14.R1f", site + ":limit-test", ok,
           "the file is rotated exactly when tracked size + statement size would exceed the limit (so no file exceeds it unless a single "
           "statement does)", fn=f)
    calls = f.calls(r"::_rotate_files$")
    ctx.ob("C14.R1g", site + ":passes-timestamp", bool(calls) and all(var_ref(c["args"][0]) == f.rec["params"][1]["did"] for c in calls),
           "the rotation receives the statement's timestamp", fn=f)


def r2_r3_r4(ctx, facts, f):
    g = f.g
    site = "RotatingSink<%s>::_rotate_files" % inst(f)
    tsp = f.rec["params"][0]["did"]
    close = cpos(f, r"::close_file$")
    opens = [c for c in f.calls(r"::open_file$")]
    openp = npos(f, opens)
    flush = cpos(f, r"::flush_sink$")
    fsync = cpos(f, r"::fsync_file$")
    ren = cpos(f, r"::_rename_file$")
    rem = cpos(f, r"::_remove_file$")
    if not close or not opens:
        ctx.ob("C14.R2a", site + ":no-return-while-closed", False,
               "the rotation closes the file being retired and re-opens the base file (close_file: %d call(s), open_file: %d)" % (len(close), len(opens)), fn=f)
        return
    rets = g.return_nodes()
    ok = all(not g.exists_path(close, [r]) for r in rets)
    ctx.ob("C14.R2a", site + ":no-return-while-closed", ok and not g.exists_path(close, [g.exit_node], avoid_nodes=openp),
           "every early return lies before close_file and every path from close_file re-opens the file (the sink is never left closed)", fn=f)
    ok = bool(flush) and bool(fsync) and all(g.dominates(flush, p) for p in close) and all(g.dominates(fsync, p) for p in close) and \
        not g.exists_path(close, flush + fsync, avoid_nodes=openp)
    ctx.ob("C14.R2b", site + ":flush-before-close", ok,
           "buffered statements are flushed and synced to the file being retired before it is closed", fn=f)
    # R2g: the 'file is empty' bail-out leaves only on the non-positive outcome: a file with content is rotated
    szt = []
    for bid, b in g.blocks.items():
        c = g.term_cond(bid)
        if c is None or not any(is_call(x, r"::_get_file_size$") for x in walk(c)):
            continue
        cs = cmp_sides(c)
        nc = norm_cmp(c)
        lab = None  # label of the outcome 'file has content'
        if cs:
            lo, hi = strip(cs[1], casts=True), strip(cs[2], casts=True)
            if is_call(lo, r"::_get_file_size$") and const_val(hi) is not None and const_val(hi) <= 1:
                lab = "F"   # size < c / size <= c  is the empty outcome
            elif is_call(hi, r"::_get_file_size$") and const_val(lo) is not None and const_val(lo) <= 1:
                lab = "T"   # c < size is the content outcome
        elif nc and nc[0] in ("==", "!=") and "0" in (nc[1], nc[2]):
            lab = "F" if nc[0] == "==" else "T"
        if lab is None:
            raise AnalysisBroken(site + ": test on _get_file_size has a shape no accepted idiom covers")
        szt.append((bid, lab))
    ok = bool(szt) and all(not g.exists_path([tnode(g, b)], rets, avoid_nodes=close, avoid_edges=[(b, other(l))]) for (b, l) in szt) and \
        all(g.exists_path([tnode(g, b)], close, avoid_edges=[(b, other(l))]) for (b, l) in szt)
    # ... and there is no other reason to skip a rotation that was decided: every return that leaves before the file is closed is
    # either this bail-out or the 'backup limit reached and overwriting is off' stop (R3c)
    over_e = []
    for bid, b in g.blocks.items():
        c = g.term_cond(bid)
        cs = cmp_sides(c) if c is not None else None
        if cs and is_call(strip(cs[1], casts=True), r"::max_backup_files$") and \
                is_call(strip(cs[2], casts=True), r"std::deque<.*>::size$") and is_this_field(call_obj(strip(cs[2], casts=True)), "_created_files"):
            over_e.append((bid, "T"))
    early_rets = [r for r in rets if not g.exists_path(close, [r])]
    unexplained = [r for r in early_rets if g.exists_path([g.entry_node], [r], avoid_edges=over_e) and
                   g.exists_path([g.entry_node], [r], avoid_edges=[(b, other(l)) for (b, l) in szt])]
    ok = ok and not unexplained
    ctx.ob("C14.R2g", site + ":empty-file-bail-out", ok,
           "the early return after the sync is taken only when the file is empty (nothing to rotate, e.g. a full disk); a file with "
           "content always goes on to be closed and rotated; no other early return exists besides the backup-limit stop (%d "
           "unexplained)" % len(unexplained), fn=f)
    ok = bool(ren) and all(g.dominates(close, p) for p in ren + rem) and not g.exists_path(openp, ren + rem)
    ctx.ob("C14.R2c", site + ":rename-only-while-closed", ok,
           "files are renamed / removed only between close_file and open_file", fn=f)
    ok = all(any(x["k"] == "StringLiteral" and x.get("str") == "w" for x in walk(c["args"][1])) and
             any(is_this_field(x, "_filename") for x in walk(c["args"][0])) for c in opens)
    ctx.ob("C14.R2d", site + ":reopens-fresh-base-file", ok, "the base file name is re-opened truncated (\"w\")", fn=f)
    zero = npos(f, [n for n in f.walk() if n["k"] == "BinaryOperator" and n["op"] == "=" and is_this_field(n["lhs"], "_file_size") and const_val(n["rhs"]) == 0])
    tsa = npos(f, [n for n in f.walk() if n["k"] == "BinaryOperator" and n["op"] == "=" and is_this_field(n["lhs"], "_open_file_timestamp") and var_ref(n["rhs"]) == tsp])
    ok = bool(zero) and bool(tsa) and not g.exists_path(openp, [g.exit_node], avoid_nodes=zero) and not g.exists_path(openp, [g.exit_node], avoid_nodes=tsa)
    ctx.ob("C14.R2e", site + ":state-reset", ok,
           "after re-opening the tracked size restarts at 0 and the open-timestamp becomes the triggering statement's timestamp", fn=f)
    front = [c for c in f.calls(r"std::deque<.*>::(emplace_front|push_front)") if is_this_field(call_obj(c), "_created_files")]
    fp = npos(f, front)
    ok = bool(front) and not g.exists_path(close, [g.exit_node], avoid_nodes=fp) and all(const_val(c["args"][1]) == 0 for c in front if len(c["args"]) > 1)
    ctx.ob("C14.R2f", site + ":new-file-registered", ok,
           "the freshly opened base file is registered as the newest entry (index 0) on every rotating path", fn=f)
    # ---- R3
    bound = []
    for bid, b in g.blocks.items():
        c = g.term_cond(bid)
        cs = cmp_sides(c) if c is not None else None
        if cs and is_call(strip(cs[1], casts=True), r"::max_backup_files$") and \
                is_call(strip(cs[2], casts=True), r"std::deque<.*>::size$") and is_this_field(call_obj(strip(cs[2], casts=True)), "_created_files"):
            bound.append((bid, cs[0]))
    pops = [c for c in f.calls(r"std::deque<.*>::pop_back$") if is_this_field(call_obj(c), "_created_files")]
    pp = npos(f, pops)
    over_edges = [(b, "T") for (b, op) in bound]
    ok = bool(rem) and bool(bound) and all(op == "<" for (b, op) in bound) and not g.exists_path([g.entry_node], rem, avoid_edges=over_edges) and \
        bool(pp) and not g.exists_path(rem, [g.exit_node], avoid_nodes=pp) and not g.exists_path([g.entry_node], pp, avoid_nodes=rem)
    ctx.ob("C14.R3a", site + ":remove-only-beyond-limit", ok,
           "a rotated file is deleted only when more files than max_backup_files exist, and the deleted entry is dropped from the list with it", fn=f)
    rc = f.calls(r"::_remove_file$")
    inits = f.var_inits()
    ok = False
    for c in rc:
        src = inits.get(var_ref(c["args"][0]), c["args"][0])
        backs = [x for x in walk(src) if is_call(x, r"std::deque<.*>::back$") and is_this_field(call_obj(x), "_created_files")]
        others = [x for x in walk(src) if is_call(x, r"std::deque<.*>::(front|operator\[\]|at)$")]
        ok = bool(backs) and not others
    ctx.ob("C14.R3b", site + ":removes-oldest", ok,
           "the file deleted is the last list entry — the oldest, since new files are inserted at the front", fn=f)
    # rotation stops: return before anything happened, only when !overwrite and over the limit
    ow = branches_on_call(f, r"::overwrite_rolled_files$")
    early = [r for r in rets if not g.exists_path(flush, [r])]
    stop_ok = False
    if ow and bound:
        b_ow, t_ow, _ = ow[0]
        # the stop-return is reached only through 'not overwriting' and 'over the limit'
        stop = [r for r in early if not g.exists_path([g.entry_node], [r], avoid_edges=[(b_ow, other(t_ow))])]
        stop_ok = bool(stop) and all(not g.exists_path([g.entry_node], [r], avoid_edges=over_edges) for r in stop) and \
            all(not g.exists_path(close + ren + rem, [r]) for r in stop)
    ctx.ob("C14.R3c", site + ":stop-without-deleting", stop_ok,
           "when overwriting is off and the limit is reached the rotation stops before anything is closed, renamed or deleted", fn=f)
    # with overwriting off and over the limit nothing is removed: rem unreachable via (over limit, not overwrite)
    if ow and bound:
        b_ow, t_ow, _ = ow[0]
        ok = not g.exists_path([tnode(g, b_ow)], rem + close, avoid_edges=[(b_ow, t_ow)])
        ctx.ob("C14.R3d", site + ":no-overwrite-no-removal", ok,
               "the 'do not overwrite' outcome never reaches close/rename/remove", fn=f)
    # ---- R4 direction
    loops = [a for c in f.calls(r"::_rename_file$") for a in f.ancestors(c) if a["k"] in ("ForStmt", "CXXForRangeStmt")]
    ok = False
    if loops and front:
        lp = loops[0]
        begin_calls = [short(x["callee"]).split("::")[-1] for x in walk(lp.get("init") or lp.get("range") or {}) if is_call(x) and is_this_field(call_obj(x), "_created_files")]
        end_calls = [short(x["callee"]).split("::")[-1] for x in walk(lp.get("cond") or {}) if is_call(x) and is_this_field(call_obj(x), "_created_files")]
        newest_front = all("front" in short(c["callee"]).split("::")[-1] for c in front)
        reverse = "rbegin" in begin_calls and "rend" in end_calls
        forward = "begin" in begin_calls and "end" in end_calls
        ok = (newest_front and reverse) or (not newest_front and forward)
    ctx.ob("C14.R4", site + ":rename-oldest-first", ok,
           "the rename chain visits the oldest file first (direction opposite to the insertion end), so a name is free before a younger "
           "file is moved onto it", fn=f)


def stream_write(ctx, facts):
    """the base sink writes the whole statement or throws (what every rule above rests on)"""
    f = facts.need("quill::StreamSink::write_log", "A")[0]
    g = f.g
    stmt = f.rec["params"][11]["did"]
    fw = f.calls(r"StreamSink::safe_fwrite$")
    fwp = npos(f, fw)
    nofile = []
    for bid, b in g.blocks.items():
        c = g.term_cond(bid)
        if c is None:
            continue
        core, neg = core_and_neg(c)
        if is_this_field(strip(core, casts=True), "_file"):
            nofile.append((bid, "T" if neg else "F"))  # label of 'no file'
    cnt = g.count_on_paths([g.entry_node], [g.exit_node], fwp)
    one = bool(nofile) and bool(fwp) and not g.exists_path([g.entry_node], [g.exit_node], avoid_nodes=fwp, avoid_edges=nofile) and (cnt[g.exit_node][1] or 0) <= 1
    inits = f.var_inits()
    whole = bool(fw)
    for c in fw:
        a = c["args"]
        d, n_ = strip(a[0], casts=True), strip(a[2], casts=True)
        src_d = var_ref(call_obj(d)) if is_call(d, r"::data$") else None
        src_n = var_ref(call_obj(n_)) if is_call(n_, r"::(size|length)$") else None
        same = src_d is not None and src_d == src_n
        if same and src_d != stmt:
            # the user's before_write transformation of this statement
            i = inits.get(src_d)
            same = isnode(i) and any(x["k"] == "MemberExpr" and x.get("mname") == "before_write" for x in walk(i)) and \
                any(x["k"] == "DeclRefExpr" and x.get("did") == stmt for x in walk(i))
        whole = whole and same and const_val(a[1]) == 1 and is_this_field(strip(a[3], casts=True), "_file")
    cbt = []
    for bid, b in g.blocks.items():
        c = g.term_cond(bid)
        if c is None:
            continue
        core, neg = core_and_neg(c)
        if any(x["k"] == "MemberExpr" and x.get("mname") == "before_write" for x in walk(core)) and not any(x["k"] == "DeclRefExpr" and x.get("did") == stmt for x in walk(core)):
            cbt.append((bid, "F" if neg else "T"))  # label of 'callback set'
    cbcalls = npos(f, [c for c in f.calls() if c["k"] == "CXXOperatorCallExpr" and any(x["k"] == "MemberExpr" and x.get("mname") == "before_write" for x in walk(c["args"][0]))
                       and "operator()" in c["callee"]])
    plain = [p_ for c in fw for p_ in g.positions(c) if var_ref(call_obj(strip(c["args"][0], casts=True))) == stmt]
    guard = bool(cbt) and bool(cbcalls) and not g.exists_path([g.entry_node], cbcalls, avoid_edges=cbt) and \
        not g.exists_path([g.entry_node], plain, avoid_edges=[(b, other(l)) for (b, l) in cbt])
    whole = whole and guard
    ctx.ob("C14.R1h", "StreamSink::write_log:whole-statement-once", one and whole,
           "with a file open the statement is handed to fwrite exactly once on every path (%s): all size() bytes from data() of the "
           "statement itself, or of the user's before_write transformation of it (%s)" % (one, whole), fn=f)
    sf = facts.need("quill::StreamSink::safe_fwrite", "A")[0]
    sg = sf.g
    throws = sg.pos_of(lambda n: isnode(n) and n.get("k") == "CXXThrowExpr")
    w = sf.calls(r"^(std::)?fwrite$")
    short_t = []
    for bid, b in sg.blocks.items():
        c = sg.term_cond(bid)
        cs = cmp_sides(c) if c is not None else None
        if cs and cs[0] == "<" and var_ref(cs[2]) == sf.rec["params"][2]["did"]:
            short_t.append(bid)
    ok = len(w) == 1 and [var_ref(x) for x in w[0]["args"]] == [p_["did"] for p_ in sf.rec["params"]] and bool(short_t) and \
        any(p in throws for p in straight_after(sg, short_t[0], "T"))
    ctx.ob("C14.R1h", "StreamSink::safe_fwrite:short-write-throws", ok,
           "fwrite receives exactly the arguments given and a short write (written < count) is raised as an error, never ignored", fn=sf)


def _stmts(n):
    """flatten a compound statement into its statement list (ExprWithCleanups peeled)"""
    if not isnode(n):
        return []
    if n["k"] == "CompoundStmt":
        return [strip(x) if isnode(x) and x["k"] == "ExprWithCleanups" else x for x in n.get("c") or []]
    return [strip(n) if n["k"] == "ExprWithCleanups" else n]


def _assign(st):
    """(lhs, rhs) of a built-in or class-type assignment statement, else None"""
    st = strip(st)
    if not isnode(st):
        return None
    if st["k"] == "BinaryOperator" and st["op"] == "=":
        return st["lhs"], st["rhs"]
    if st["k"] == "CXXOperatorCallExpr" and (st.get("callee") or "").endswith("operator=") and len(st["args"]) == 2:
        return st["args"][0], st["args"][1]
    return None


def rename_chain(ctx, facts, f):
    """R4b-e: the rename chain as a table transformation: old name from the entry as it is, new name from the values the entry receives"""
    g = f.g
    site = "RotatingSink<%s>::_rotate_files" % inst(f)
    ren = f.calls(r"::_rename_file$")
    loops = [a for c in ren for a in f.ancestors(c) if a["k"] == "ForStmt"]
    if not ren or not loops:
        raise AnalysisBroken(site + ": rename loop not found")
    lp = loops[0]
    itv = None
    init = lp.get("init")
    if isnode(init) and init.get("decls"):
        itv = init["decls"][0]["did"]
    def on_it(e, member=None):
        e = strip(e, casts=True)
        return isnode(e) and e["k"] == "MemberExpr" and (member is None or e.get("mname") == member) and \
            any(x["k"] == "DeclRefExpr" and x.get("did") == itv for x in walk(e.get("base")))
    # loop covers every entry: it != rend / ++it / no early exit
    cond_ok = isnode(lp.get("cond")) and is_call(strip(lp["cond"]), r"operator!=") and \
        any(is_call(x, r"std::deque<.*>::(rend|end)$") and is_this_field(call_obj(x), "_created_files") for x in walk(lp["cond"]))
    inc = strip(lp.get("inc"))
    inc_ok = isnode(inc) and is_call(inc, r"operator\+\+$") and any(x["k"] == "DeclRefExpr" and x.get("did") == itv for x in walk(inc))
    early = [x for x in walk(lp["body"]) if x["k"] in ("BreakStmt", "ContinueStmt", "ReturnStmt", "GotoStmt")]
    ctx.ob("C14.R4b", site + ":chain-covers-every-entry", itv is not None and cond_ok and inc_ok and not early,
           "the rename loop visits every registered file: runs until the end iterator, advances by one, never leaves early", fn=f)
    body = _stmts(lp["body"])
    # existing name: <var> = _get_filename(it->base_filename, it->index, it->date_time), before any update of the entry
    existing_v, existing_stmt = None, None
    for st in body:
        a = _assign(st)
        srcs = [a] if a else []
        if isnode(st) and st["k"] == "DeclStmt":
            srcs = [({"k": "DeclRefExpr", "dk": "Var", "did": d["did"], "id": -1, "name": ""}, d.get("init")) for d in st.get("decls") or [] if isnode(d.get("init"))]
        for (lhs, rhs) in srcs:
            calls = [x for x in walk(rhs) if is_call(x, r"::_get_filename$")]
            if calls and len(calls[0]["args"]) == 3 and on_it(calls[0]["args"][0], "base_filename") and on_it(calls[0]["args"][1], "index") and on_it(calls[0]["args"][2], "date_time"):
                existing_v, existing_stmt = var_ref(lhs), st
    idx_v = None
    for st in body:
        if isnode(st) and st["k"] == "DeclStmt":
            for d in st.get("decls") or []:
                if isnode(d.get("init")) and on_it(d["init"], "index"):
                    idx_v = d["did"]
    arms = []
    def collect(n, conds):
        for st in _stmts(n):
            if isnode(st) and st["k"] == "IfStmt":
                collect(st.get("then"), conds + [(st["cond"], True)])
                if st.get("else") is not None:
                    collect(st.get("else"), conds + [(st["cond"], False)])
        sts = _stmts(n)
        if any(isnode(x) and (is_call(strip(x), r"::_rename_file$") or
                              (_assign(x) and (on_it(_assign(x)[0], "index") or on_it(_assign(x)[0], "date_time")))) for x in sts):
            arms.append((sts, conds))
    collect(lp["body"], [])
    ctx.floor("C14.R4c", "renaming arms of the chain", len(arms), 2)
    upd_before = False
    ex_pos = g.positions(existing_stmt) if existing_stmt is not None else []
    for k, (sts, conds) in enumerate(arms):
        delta, reset, newname, new_v, upd_i, upd_d, rn = 0, False, None, None, None, None, None
        order_ok = True
        for st in sts:
            st_ = strip(st)
            if not isnode(st_):
                continue
            if st_["k"] == "CompoundAssignOperator" and var_ref(st_["lhs"]) == idx_v and idx_v is not None:
                c = const_val(st_["rhs"])
                delta = (delta + c if st_["op"] == "+=" and c is not None else 99)
                if newname is not None:
                    order_ok = False
            elif st_["k"] == "UnaryOperator" and st_.get("op") == "++" and var_ref(st_["sub"]) == idx_v and idx_v is not None:
                delta += 1
                if newname is not None:
                    order_ok = False
            a = _assign(st_)
            if a:
                lhs, rhs = a
                if var_ref(lhs) == idx_v and idx_v is not None and st_["k"] == "BinaryOperator":
                    if on_it(rhs, "index"):
                        delta = 0
                    else:
                        delta = 99
                calls = [x for x in walk(rhs) if is_call(x, r"::_get_filename$")]
                if calls and var_ref(lhs) is not None and var_ref(lhs) != existing_v:
                    newname, new_v = calls[0], var_ref(lhs)
                if on_it(lhs, "index"):
                    upd_i = rhs
                if on_it(lhs, "date_time"):
                    upd_d = rhs
            if is_call(st_, r"::_rename_file$"):
                rn = st_
                if newname is None or upd_i is None or upd_d is None:
                    order_ok = order_ok and newname is not None
        incr_arm = any(pos and (any(x["k"] == "DeclRefExpr" and x.get("name", "").endswith("RotationNamingScheme::Index") for x in walk(c)) or
                                any(on_it(x, "date_time") for x in walk(c)) and not any(is_call(x, r"::empty$") for x in walk(c)))
                       for (c, pos) in conds[-1:])
        # the shifting arm is entered exactly on 'Index scheme' or 'same date suffix as the file being retired'
        pol_ok = True
        if rn is not None:
            shift_edges = []
            for bid, b in g.blocks.items():
                c = g.term_cond(bid)
                if c is None or not in_subtree(c, lp["body"]):
                    continue
                nc = norm_cmp(c)
                cc = strip(c)
                if nc and nc[0] in ("==", "!=") and any(x["k"] == "DeclRefExpr" and x.get("name", "").endswith("RotationNamingScheme::Index") for x in walk(c)):
                    shift_edges.append((bid, "T" if nc[0] == "==" else "F"))
                elif isnode(cc) and is_call(cc, r"operator(==|!=)") and any(on_it(x, "date_time") for x in cc["args"]):
                    shift_edges.append((bid, "T" if "operator==" in cc["callee"] else "F"))
            rp = g.positions(rn)
            if incr_arm:
                pol_ok = bool(shift_edges) and not g.exists_path(ex_pos, rp, avoid_nodes=[p_ for p_ in npos(f, [lp["inc"]])], avoid_edges=shift_edges)
            else:
                pol_ok = bool(shift_edges) and not any(g.exists_path([tnode(g, b)], rp, avoid_nodes=[p_ for p_ in npos(f, [lp["inc"]])], avoid_edges=[(b, other(l))])
                                                       for (b, l) in shift_edges)
        ok_names = pol_ok and rn is not None and newname is not None and len(rn["args"]) == 2 and var_ref(rn["args"][0]) == existing_v and existing_v is not None and \
            var_ref(rn["args"][1]) == new_v
        ok_entry = newname is not None and upd_i is not None and upd_d is not None and len(newname["args"]) == 3 and on_it(newname["args"][0], "base_filename") and \
            var_ref(newname["args"][1]) is not None and var_ref(newname["args"][1]) == var_ref(upd_i) and \
            var_ref(newname["args"][2]) is not None and var_ref(newname["args"][2]) == var_ref(upd_d)
        ok_idx = idx_v is not None and newname is not None and var_ref(newname["args"][1]) == idx_v and delta == (1 if incr_arm else 0)
        ctx.ob("C14.R4c", site + ":chain-arm#%d:%s" % (k, "shift" if incr_arm else "stamp"), ok_names and ok_entry and ok_idx and order_ok,
               "%s arm: the file is renamed from the name its entry describes (%s) to the name built from exactly the index and date the "
               "entry receives (%s); the index used is the old one %s (%s)" %
               ("index-shifting" if incr_arm else "date-stamping", ok_names, ok_entry, "+ 1" if incr_arm else "unchanged", ok_idx and order_ok), fn=f)
    # the old name is computed before the entry is touched
    upd_pos = npos(f, [x for x in walk(lp["body"]) if _assign(x) and (on_it(_assign(x)[0], "index") or on_it(_assign(x)[0], "date_time"))])
    ok = bool(ex_pos) and bool(upd_pos) and all(g.dominates(ex_pos, p) for p in upd_pos)
    # within one iteration: no update precedes the computation (the back edge is allowed)
    ctx.ob("C14.R4d", site + ":old-name-before-update", ok and existing_v is not None,
           "the existing file name is computed from the entry (base name, index, date) before the entry is updated in that iteration", fn=f)
    # R4e: date suffix per naming scheme, from the moment the file was opened
    sfx = {k: v[:3] for k, v in suffix_sites(facts, f).items()}
    ok = sfx.get("Date") == ("%Y%m%d", True, True) and sfx.get("DateAndTime") == ("%Y%m%d_%H%M%S", True, True) and "?" not in sfx and "Index" not in sfx
    ctx.ob("C14.R4e", site + ":suffix-per-scheme", ok,
           "the Date scheme stamps %%Y%%m%%d, DateAndTime %%Y%%m%%d_%%H%%M%%S, Index nothing — each of the moment the retired file was opened, "
           "in the configured zone (%s)" % sfx, fn=f)


def suffix_sites(facts, f):
    """where the date / date-time suffix of a rotated file is rendered: the format_datetime_string calls of _rotate_files itself or,
    when it has none, of the member function(s) of the same class it calls for it (the suffix computation extracted into a helper).
    {scheme or '?': (format, from the open timestamp, in the configured zone, owner, call)}; the scheme is the enumerator the nearest
    enclosing `if (scheme == E)` (then-arm) tests."""
    owners = [f] if f.calls(r"::format_datetime_string$") else \
        [h for h in facts.callgraph(f.config).get(id(f), ()) if h.cls == f.cls and h.calls(r"::format_datetime_string$")]
    out = {}
    for o in owners:
        for c in o.calls(r"::format_datetime_string$"):
            fmt = [x["str"] for x in walk(c["args"][2]) if x["k"] == "StringLiteral"]
            ifs = [i for i in o.ancestors(c) if i["k"] == "IfStmt" and in_subtree(c, i["then"])]
            scheme = [x["name"].split("::")[-1] for x in walk(ifs[0]["cond"]) if x["k"] == "DeclRefExpr" and x.get("dk") == "EnumConstant"] if ifs else []
            nc = norm_cmp(ifs[0]["cond"]) if ifs else None
            key = scheme[0] if scheme and nc and nc[0] == "==" else "?"
            if key in out and key != "?":
                key = "?"       # two sites for one scheme: not a shape the table describes
            out[key] = (fmt[0] if fmt else None, is_this_field(strip(c["args"][0], casts=True), "_open_file_timestamp"),
                        any(is_call(x, r"::timezone$") for x in walk(c["args"][1])), o, c)
    return out


def get_filename(ctx, facts, f):
    g = f.g
    site = "RotatingSink<%s>::_get_filename" % inst(f)
    datep, idxp = f.rec["params"][2]["did"], f.rec["params"][1]["did"]
    ad = cpos(f, r"::_append_string_to_filename$")
    ai = cpos(f, r"::_append_index_to_filename$")
    de, ie = [], []
    for bid, b in g.blocks.items():
        c = g.term_cond(bid)
        if c is None:
            continue
        core, neg = core_and_neg(c)
        cs_ = strip(core, casts=True)
        if is_call(cs_, r"::empty$") and var_ref(call_obj(cs_)) == datep:
            de.append((bid, "T" if neg else "F"))  # label of 'has a date'
        nc = norm_cmp(c)
        if nc and "v%d" % idxp in (nc[1], nc[2]) and "0" in (nc[1], nc[2]):
            lab = {"<": "T" if nc[1] == "0" else None, "!=": "T", "==": "F"}.get(nc[0])
            if lab:
                ie.append((bid, lab))  # label of 'index is positive'
    ok = bool(ad) and bool(ai) and bool(de) and bool(ie) and \
        not g.exists_path([g.entry_node], ad, avoid_edges=de) and not g.exists_path([g.entry_node], ai, avoid_edges=ie) and \
        all(not g.exists_path([tnode(g, b)], [g.exit_node], avoid_nodes=ad, avoid_edges=[(b, other(l))]) for (b, l) in de) and \
        all(not g.exists_path([tnode(g, b)], [g.exit_node], avoid_nodes=ai, avoid_edges=[(b, other(l))]) for (b, l) in ie) and \
        not g.exists_path(ai, ad)
    ctx.ob("C14.R4f", site + ":name-of-an-entry", ok,
           "a file name is the base name, plus the date exactly when the entry has one, plus the index exactly when it is positive (index 0 "
           "without a date is the live file itself), date before index", fn=f)


def recover(ctx, facts, f):
    """restart: files are deleted only when asked to and only in write mode; append mode re-registers what it finds"""
    g = f.g
    site = "RotatingSink<%s>::_clean_and_recover_files" % inst(f)
    modep = f.rec["params"][1]["did"]
    rem = cpos(f, r"^std::filesystem::remove$")
    reg = npos(f, [c for c in f.calls(r"std::deque<.*>::(emplace_front|emplace_back|push_front|push_back)") if is_this_field(call_obj(c), "_created_files")])
    rb = branches_on_call(f, r"::remove_old_files$")
    modes = {}
    for bid, b in g.blocks.items():
        c = g.term_cond(bid)
        if c is None:
            continue
        core, neg = core_and_neg(c)
        lits = [x["str"] for x in walk(core) if x["k"] == "StringLiteral"]
        if lits and any(x["k"] == "DeclRefExpr" and x.get("did") == modep for x in walk(core)) and lits[0] in ("w", "a"):
            eq = "==" in (core.get("callee", "") if is_call(core) else core.get("op", ""))
            modes.setdefault(lits[0], []).append((bid, "T" if eq != neg else "F"))
    ok = bool(rem) and bool(rb) and "w" in modes and \
        not g.exists_path([g.entry_node], rem, avoid_edges=[(b, t) for (b, t, c) in rb]) and \
        not g.exists_path([g.entry_node], rem, avoid_edges=modes["w"])
    ctx.ob("C14.R5a", site + ":delete-only-when-asked", ok,
           "old files are deleted at start-up only under remove_old_files() and open mode \"w\"", fn=f)
    ok = bool(reg) and "a" in modes and not g.exists_path([g.entry_node], reg, avoid_edges=modes["a"]) and \
        all(not g.exists_path([tnode(g, b)], rem, avoid_edges=[(b, other(l))]) for (b, l) in modes["a"])
    ctx.ob("C14.R5b", site + ":append-recovers", ok,
           "in append mode existing rotated files are re-registered (so indices continue) and nothing is deleted", fn=f)
    srt = f.calls(r"^std::sort")
    ok = bool(srt) and all(any(p in g.reach(reg) for p in g.positions(c)) for c in srt)
    lam = [x for x in facts.fns if x.config == "A" and x.rec.get("parent") == f.name and any(n["k"] == "MemberExpr" and n.get("mname") == "index" for n in x.walk())]
    asc = False
    for l in lam:
        for r in l.g.return_nodes():
            cs = cmp_sides(l.g.node_ast(r).get("val"))
            if cs and cs[0] == "<":
                a, b = strip(cs[1], casts=True), strip(cs[2], casts=True)
                if isnode(a) and isnode(b) and a.get("mname") == "index" and b.get("mname") == "index" and \
                        var_ref(a.get("base")) == l.rec["params"][0]["did"] and var_ref(b.get("base")) == l.rec["params"][1]["did"]:
                    asc = True
    ctx.ob("C14.R5c", site + ":recovered-newest-first", ok and asc,
           "recovered files are ordered by ascending index (newest first, the order the rename chain relies on)", fn=f)
    # R5e: unrelated files in the directory are neither deleted nor adopted: every removal / registration in the scan is reachable
    # only through 'the entry has the sink's extension' and 'the entry's name starts with <stem>.'
    pref, ext = [], []
    for bid, b in g.blocks.items():
        c = g.term_cond(bid)
        nc = norm_cmp(c) if c is not None else None
        if nc and nc[0] in ("==", "!=") and "0" in (nc[1], nc[2]) and \
                any(is_call(x, r"basic_string<.*>::(find|rfind|compare)$") and any(is_call(y, r"path::stem$") for a in x["args"] for y in walk(a)) and
                    # the needle is '<stem>.' — with the separator: 'app_audit.1.log' also starts with 'app'
                    any((y["k"] == "StringLiteral" and y.get("str") == ".") or (y["k"] == "CharacterLiteral" and y.get("val") == 46) for a in x["args"] for y in walk(a))
                    for x in walk(c)):
            pref.append((bid, "T" if nc[0] == "==" else "F"))
        cc = strip(c) if c is not None else None
        if isnode(cc) and is_call(cc, r"operator(==|!=)") and sum(1 for x in walk(cc) if is_call(x, r"path::extension$")) >= 2:
            ext.append((bid, "T" if "operator==" in cc["callee"] else "F"))
    acts = sorted(set(rem) | set(reg))
    okp = bool(pref) and bool(acts) and not g.exists_path([g.entry_node], acts, avoid_edges=pref)
    oke = bool(ext) and bool(acts) and not g.exists_path([g.entry_node], acts, avoid_edges=ext)
    ctx.ob("C14.R5e", site + ":unrelated-files-untouched", okp and oke,
           "a directory entry is deleted or adopted into the sequence only when its name starts with '<stem>.' (a position-0 match, "
           "%d test(s): %s) and carries the sink's extension (%d test(s): %s)" % (len(pref), okp, len(ext), oke), fn=f)
    # R5f: clean-up / recovery is skipped only for naming schemes that cannot collide (anything but Index and Date): for Index and
    # Date the scan is reached; and inside the scan each scheme has its own arm
    sch = {}
    for bid, b in g.blocks.items():
        c = g.term_cond(bid)
        nc = norm_cmp(c) if c is not None else None
        if nc and nc[0] in ("==", "!=") and any(is_call(x, r"::rotation_naming_scheme$") for x in walk(c)):
            for x in walk(c):
                if x["k"] == "DeclRefExpr" and x.get("dk") == "EnumConstant" and "RotationNamingScheme" in x.get("name", ""):
                    sch.setdefault(x["name"].split("::")[-1], []).append((bid, "T" if nc[0] == "==" else "F"))  # label of 'scheme is X'
    en = facts.enum("quill::RotatingFileSinkConfig::RotationNamingScheme", "A")
    if not en:
        raise AnalysisBroken("RotationNamingScheme not found")
    scan_entry = sorted(set(p_ for lp_ in [n for n in f.walk() if n["k"] == "CXXForRangeStmt"] for p_ in g.positions(lp_.get("range")) or []))
    rets = g.return_nodes()
    ok = bool(acts)
    detail = {}
    for (name, _v) in en["enumerators"]:
        collide = name in ("Index", "Date")
        # taking only the 'scheme is <name>' outcomes of tests on <name> and only the 'is not' outcomes of tests on the others
        avoid = [(b, other(l)) for (b, l) in sch.get(name, [])] + [(b, l) for n2, es in sch.items() if n2 != name for (b, l) in es]
        reach_acts = g.exists_path([g.entry_node], acts, avoid_edges=avoid)
        detail[name] = reach_acts
        ok = ok and (reach_acts == collide)
    ctx.ob("C14.R5f", site + ":schemes-that-can-collide", ok and "Index" in sch and "Date" in sch,
           "old files are cleaned / recovered for exactly the naming schemes whose names can collide across restarts (Index, Date), and "
           "for none other (removal or adoption reachable per scheme: %s)" % detail, fn=f)
    # R5g: under the Index scheme every matching file is removed (write mode) / registered with its parsed index (append mode);
    # under the Date scheme only today's files
    idx_only = [(b, other(l)) for (b, l) in sch.get("Index", [])] + [(b, l) for n2, es in sch.items() if n2 != "Index" for (b, l) in es]
    date_only = [(b, other(l)) for (b, l) in sch.get("Date", [])] + [(b, l) for n2, es in sch.items() if n2 != "Date" for (b, l) in es]
    today = []
    for bid, b in g.blocks.items():
        c = g.term_cond(bid)
        if c is None:
            continue
        cc, neg_ = core_and_neg(c)
        cc = strip(cc)
        if isnode(cc) and is_call(cc, r"operator(==|!=)") and any(var_name(x) == "today_date" or (x["k"] == "DeclRefExpr" and "today" in x.get("name", "")) for x in walk(cc)):
            lab_ = "T" if "operator==" in cc["callee"] else "F"
            today.append((bid, other(lab_) if neg_ else lab_))
    ok_idx = bool(rem) and bool(reg) and g.exists_path([g.entry_node], rem, avoid_edges=idx_only + today) and g.exists_path([g.entry_node], reg, avoid_edges=idx_only + today)
    ok_date = bool(today) and g.exists_path([g.entry_node], rem, avoid_edges=date_only) and g.exists_path([g.entry_node], reg, avoid_edges=date_only) and \
        not g.exists_path([g.entry_node], rem, avoid_edges=date_only + today) and not g.exists_path([g.entry_node], reg, avoid_edges=date_only + today)
    # every removal / registration site of the Date arm is feasible when all 'is today's date' tests succeed and infeasible when any fails
    date_sites = [p_ for p_ in sorted(set(rem) | set(reg)) if g.exists_path([g.entry_node], [p_], avoid_edges=date_only) and
                  not g.exists_path([g.entry_node], [p_], avoid_edges=idx_only)]
    ok_date = ok_date and bool(date_sites) and all(g.exists_path([g.entry_node], [p_], avoid_edges=date_only + [(b, other(l)) for (b, l) in today]) for p_ in date_sites)
    stoul = [c for c in f.calls(r"^std::stoul$")]
    idx_parsed = any(any(in_subtree(c, r_) for c in stoul) for r_ in [x for x in f.calls(r"std::deque<.*>::(emplace_front|emplace_back|push_front|push_back)") if is_this_field(call_obj(x), "_created_files")])
    ctx.ob("C14.R5g", site + ":per-scheme-arms", ok_idx and ok_date and idx_parsed,
           "Index scheme: every matching file is removed / re-registered with the index parsed from its name, without a date test (%s, "
           "parsed: %s); Date scheme: only files that carry today's date are removed / re-registered (%s) — files of earlier days cannot "
           "collide and stay" % (ok_idx, idx_parsed, ok_date), fn=f)
    # R5h: a position returned by a search is used as a position only on the 'found' outcome of its npos test
    inits_ = f.var_inits()
    bad_use, nvars = [], 0
    for vid, i in inits_.items():
        if not (isnode(i) and any(is_call(x, r"basic_string<.*>::(find|rfind|find_last_of|find_first_of)$") for x in walk(strip(i, casts=True)) if x is strip(i, casts=True))):
            continue
        tests_ = []
        for bid, b in g.blocks.items():
            c = g.term_cond(bid)
            nc = norm_cmp(c) if c is not None else None
            if nc and nc[0] in ("==", "!=") and "v%d" % vid in (nc[1], nc[2]) and any(x["k"] == "DeclRefExpr" and x.get("name", "").endswith("npos") for x in walk(c)):
                tests_.append((bid, "T" if nc[0] == "!=" else "F", c))  # label of 'found'
        if not tests_:
            continue
        nvars += 1
        uses = [x for x in f.walk() if x["k"] == "DeclRefExpr" and x.get("did") == vid and not any(in_subtree(x, c) for (_b, _l, c) in tests_)]
        up = sorted(set(p_ for u in uses for p_ in g.positions(u) or []))
        if g.exists_path([g.entry_node], up, avoid_edges=[(b, l) for (b, l, _c) in tests_]):
            bad_use.append(vid)
    ctx.floor("C14.R5h", "search results tested against npos", nvars, 4)
    ctx.ob("C14.R5h", site + ":position-used-only-when-found", not bad_use,
           "the offset of the last dot (index / date separator) is used to cut the name only on the 'found' outcome of its npos test "
           "(%d searched positions, %d used on the other outcome)" % (nvars, len(bad_use)), fn=f)
    # R5i: a found separator position V splits a name into [0, V) and [V + 1, ...): every substr that mentions V has one of these forms
    searched = set()
    for vid, i in inits_.items():
        if isnode(i) and is_call(strip(i, casts=True), r"basic_string<.*>::(find|rfind|find_last_of|find_first_of)$"):
            searched.add(vid)
    cuts, bad_cut = 0, []
    for c in f.calls(r"basic_string<.*>::substr$"):
        a = c["args"]
        vs = [x.get("did") for arg in a for x in walk(arg) if x["k"] == "DeclRefExpr" and x.get("did") in searched]
        if not vs:
            continue
        cuts += 1
        a0 = strip(a[0], casts=True)
        before = const_val(a[0]) == 0 and len(a) > 1 and var_ref(a[1]) in searched
        after = isnode(a0) and a0["k"] == "BinaryOperator" and a0["op"] == "+" and \
            ((var_ref(a0["lhs"]) in searched and const_val(a0["rhs"]) == 1) or (var_ref(a0["rhs"]) in searched and const_val(a0["lhs"]) == 1)) and \
            not any(x["k"] == "DeclRefExpr" and x.get("did") in searched for x in walk(a[1])) if len(a) > 1 else False
        if not (before or after):
            bad_cut.append(c["loc"])
    ctx.floor("C14.R5i", "cuts at a separator position", cuts, 8)
    ctx.ob("C14.R5i", site + ":cut-at-the-separator", not bad_cut,
           "a name is cut at a found dot either as substr(0, pos) (what precedes it) or substr(pos + 1, ...) (what follows it): %d cuts, "
           "other forms at %s" % (cuts, bad_cut), fn=f)
    # R5j: what is registered is a path that had the recovered file name appended
    regs = [x for x in f.calls(r"std::deque<.*>::(emplace_front|emplace_back|push_front|push_back)") if is_this_field(call_obj(x), "_created_files")]
    okj = bool(regs)
    for r_ in regs:
        pv = var_ref(r_["args"][0])
        apps = [c for c in f.calls(r"filesystem::path::append\b|filesystem::path::operator/=") if var_ref(call_obj(c) if c["k"] != "CXXOperatorCallExpr" else c["args"][0]) == pv and pv is not None]
        okj = okj and bool(apps) and all(g.dominates(npos(f, apps), p_) for p_ in g.positions(r_)) and \
            any(any(is_call(y, r"basic_string<.*>::substr$") for y in walk(inits_.get(var_ref(c["args"][0 if c["k"] != "CXXOperatorCallExpr" else 1]), {}) or {})) for c in apps)
    ctx.ob("C14.R5j", site + ":registered-entry-names-the-file", okj,
           "every recovered entry is registered under the directory plus the base file name cut out of the entry's name (the name the "
           "rename chain will later rebuild)", fn=f)
    # R5l: the index an entry is registered with is the one in its name: parsed from the name (stoul of the piece cut out), or 0 for a
    # name that carries no index
    badl = [r_["loc"] for r_ in regs if len(r_["args"]) == 3 and not (const_val(r_["args"][1]) == 0 or any(is_call(y, r"^std::stoul$") for y in walk(r_["args"][1])))]
    ctx.ob("C14.R5l", site + ":registered-index-is-the-name's", len(regs) >= 3 and not badl,
           "each of the %d registrations passes as index either the number parsed out of the file's name or 0 when the name has none (other: %s)"
           % (len(regs), badl), fn=f)
    # R5k: the 'this suffix is a date' test admits the 8 characters of %Y%m%d
    fmt_len = None
    for c in f.calls(r"::format_datetime_string$"):
        for x in walk(c["args"][2]):
            if x["k"] == "StringLiteral":
                t_ = x["str"]
                fmt_len = t_.count("%Y") * 4 + t_.count("%m") * 2 + t_.count("%d") * 2 + len(__import__("re").sub(r"%[Ymd]", "", t_))
    thr = []
    for bid, b in g.blocks.items():
        c = g.term_cond(bid)
        cs = cmp_sides(c) if c is not None else None
        if cs and const_val(cs[1]) is not None and is_call(strip(cs[2], casts=True), r"basic_string<.*>::(length|size)$"):
            thr.append(const_val(cs[1]) + (1 if cs[0] == "<" else 0))  # minimal admitted length
    ctx.ob("C14.R5k", site + ":date-suffix-length", fmt_len is not None and bool(thr) and all(t_ <= fmt_len for t_ in thr),
           "a suffix is taken for a date when it has at least N characters; N (%s) does not exceed the %s characters the date format "
           "produces, so today's files are recognised" % (sorted(set(thr)), fmt_len), fn=f)
    ctor = [x for x in facts.fns if x.config == "A" and x.short == "quill::RotatingSink::RotatingSink" and x.rec.get("inits") and inst(x) == inst(f)]
    if ctor:
        c = ctor[0]
        cg = c.g
        rc = cpos(c, r"::_clean_and_recover_files$")
        op = c.calls(r"::open_file$")
        fr = npos(c, [x for x in c.calls(r"std::deque<.*>::(emplace_front|push_front)") if is_this_field(call_obj(x), "_created_files")])
        ok = bool(rc) and bool(op) and bool(fr) and all(cg.dominates(rc, p) for p in npos(c, op)) and all(cg.dominates(npos(c, op), p) for p in fr) and \
            all(any(is_call(x, r"::open_mode$") for x in walk(o["args"][1])) for o in op)
        sz = npos(c, [n for n in c.walk() if n["k"] == "BinaryOperator" and n["op"] == "=" and is_this_field(n["lhs"], "_file_size") and any(is_call(x, r"::_get_file_size$") for x in walk(n["rhs"]))])
        # the entry of the file being written describes that file: its own name, index 0 (no index suffix), no date
        frc = [x for x in c.calls(r"std::deque<.*>::(emplace_front|push_front)") if is_this_field(call_obj(x), "_created_files")]
        ok = ok and all(len(x["args"]) == 3 and any(x2["k"] == "MemberExpr" and x2.get("mname") == "_filename" for x2 in walk(x["args"][0])) and
                        const_val(x["args"][1]) == 0 for x in frc)
        # ... for every sink that writes a real file: only the 'this is the null sink' outcome may skip the size read
        nul_e = [(b, t) for (b, t, cc) in branches_on_call(c, r"StreamSink::is_null$")]
        thr_c = [q for x in c.walk() if x["k"] == "CXXThrowExpr" for q in cg.positions(x)]
        ok = ok and bool(sz) and not cg.exists_path([cg.entry_node], [cg.exit_node], avoid_nodes=sz + thr_c, avoid_edges=nul_e)
        ctx.ob("C14.R5d", "RotatingSink<%s>::ctor:recover-open-register" % inst(f), ok and bool(sz),
               "start-up recovers the existing files, then opens the base file in the configured mode, registers it as newest — under its "
               "own name with index 0, the name it is later renamed from — and takes its current size (an appended-to file counts "
               "towards the limit)", fn=c)


def config_roundtrip(ctx, facts):
    """R7: a limit the user sets is the limit in effect. For every setter of RotatingFileSinkConfig: a field that is assigned from a
    parameter receives that parameter itself (or a named conversion of it) — not a re-interpretation of particular values — on every
    path that does not end in a throw; the getter of the same name returns that field. (A value the class does not want is rejected by
    throwing, the way rotation_max_file_size < 512 and interval == 0 are.)"""
    cn = "quill::RotatingFileSinkConfig"
    crec = facts.cls(cn, "A")
    if not crec:
        raise AnalysisBroken("RotatingFileSinkConfig class record not found")
    setters = [f for f in facts.fns if f.config == "A" and f.cls == cn and f.base.startswith("set_")]
    n = 0
    for f in setters:
        g = f.g
        params = {p["did"]: p.get("name") for p in f.rec["params"]}
        throws = [q for x in f.walk() if x["k"] == "CXXThrowExpr" for q in g.positions(x)]
        by_field = {}
        for x in f.walk():
            if x["k"] == "BinaryOperator" and x["op"] == "=" and is_this_field(x["lhs"]):
                tgt, rhs = x["lhs"], x["rhs"]
            elif x["k"] == "CXXOperatorCallExpr" and (x.get("callee") or "").endswith("operator=") and len(x["args"]) == 2 and is_this_field(x["args"][0]):
                tgt, rhs = x["args"][0], x["args"][1]
            else:
                continue
            used = [v for v in (var_ref(y) for y in walk(rhs)) if v in params]
            if used:
                by_field.setdefault(field_name(tgt), []).append((x, rhs, used))
        for fld, asg in by_field.items():
            n += 1
            bad = []
            for (x, rhs, used) in asg:
                r = strip(rhs, casts=True)
                while is_call(r, r"^std::move$") and r.get("args"):
                    r = strip(r["args"][0], casts=True)
                plain = var_ref(r) in params
                conv = is_call(r) and not is_call(r, r"^std::(min|max|clamp)") and any(var_ref(strip(a, casts=True)) in params for a in (r.get("args") or []))
                if not (plain or conv):
                    bad.append("%s is assigned a re-interpretation of the argument at %s" % (fld, x["loc"]))
            pos = [q for (x, rhs, used) in asg for q in g.positions(x)]
            if g.exists_path([g.entry_node], [g.exit_node], avoid_nodes=pos + throws):
                bad.append("a path that does not throw leaves %s unassigned" % fld)
            getter = [m for m in facts.fns if m.config == "A" and m.cls == cn and m.base == f.base[4:]]
            if getter:
                rets = [getter[0].g.node_ast(r) for r in getter[0].g.return_nodes()]
                if not (rets and all(is_this_field(strip(r.get("val"), casts=True), fld) for r in rets)):
                    bad.append("%s() does not return %s" % (getter[0].base, fld))
            ctx.ob("C14.R7", "RotatingFileSinkConfig::%s:%s-is-what-was-given" % (f.base, fld), not bad,
                   "the field takes the caller's argument itself on every path that does not throw, and the getter of the same name returns "
                   "it (%s)" % ("; ".join(bad) or "ok"), fn=f)
    ctx.floor("C14.R7", "config fields assigned from a setter's parameter", n, 7)


def append_helpers(ctx, facts):
    """R4g: the two helpers _get_filename builds a name from. _append_index_to_filename returns the name unchanged exactly on 'index is
    0' and otherwise stem + "." + to_string(index) + ext; _append_string_to_filename returns it unchanged exactly on 'text is empty' and
    otherwise stem + "." + text + ext; stem and ext come from extract_stem_and_extension of the same name, which pairs
    parent_path()/stem() with extension() (so stem + ext is the name again and the suffix sits in front of the extension)."""
    def pieces(e):
        """flatten a chain of string operator+ into its leaf operands"""
        e = strip(e, casts=True)
        while isnode(e) and e["k"] in ("CXXConstructExpr", "CXXTemporaryObjectExpr", "CXXFunctionalCastExpr", "InitListExpr") and \
                len([a for a in (e.get("args") or e.get("c") or []) if not (isnode(a) and a["k"] == "CXXDefaultArgExpr")]) == 1:
            e = strip((e.get("args") or e.get("c"))[0], casts=True)
        if isnode(e) and e["k"] == "CXXOperatorCallExpr" and short(e.get("callee") or "").endswith("operator+") and len(e["args"]) == 2:
            return pieces(e["args"][0]) + pieces(e["args"][1])
        return [e]

    def kind(x, f, param):
        if not isnode(x):
            return "?"
        if x["k"] == "StringLiteral":
            return "'%s'" % x.get("str")
        if is_call(x, r"^std::to_string$"):
            return "to_string(%s)" % ("index" if var_ref(strip(x["args"][0], casts=True)) == param else "?")
        if x["k"] == "DeclRefExpr" and x.get("dk") == "Binding":       # auto [a, b] = extract_stem_and_extension(...)
            m = re.search(r"tuple_element<(\d+)", x.get("ty") or "")
            return {"0": "stem", "1": "ext"}.get(m.group(1) if m else "", "?")
        if x["k"] == "MemberExpr" and x.get("mname") in ("first", "second"):
            return "stem" if x["mname"] == "first" else "ext"
        if x["k"] == "DeclRefExpr":
            return "text" if x.get("did") == param else x.get("name", "?").split("::")[-1]
        return x["k"]
    n = 0
    for base, pidx, test in (("_append_index_to_filename", 1, "index"), ("_append_string_to_filename", 1, "text")):
        for f in facts.need(RS + base, "A", floor=2):
            n += 1
            g = f.g
            name_p, p = f.rec["params"][0]["did"], f.rec["params"][pidx]["did"]
            same_edges = []
            for bid, b in g.blocks.items():
                c = g.term_cond(bid)
                if c is None:
                    continue
                if test == "index":
                    nc = norm_cmp(c)
                    if nc and nc[0] in ("==", "!=") and "v%d" % p in (nc[1], nc[2]) and "0" in (nc[1], nc[2]):
                        same_edges.append((bid, "T" if nc[0] == "==" else "F"))
                else:
                    core, neg = core_and_neg(c)
                    cs_ = strip(core, casts=True)
                    if is_call(cs_, r"::empty$") and var_ref(call_obj(cs_)) == p:
                        same_edges.append((bid, "F" if neg else "T"))
            rets = [(q, g.node_ast(q)) for q in g.return_nodes()]
            unchanged = [q for (q, r) in rets if var_ref(strip(r.get("val"), casts=True)) == name_p or
                         (isnode(strip(r.get("val"), casts=True)) and strip(r.get("val"), casts=True)["k"] == "CXXConstructExpr" and
                          len(strip(r.get("val"), casts=True).get("args") or []) == 1 and var_ref(strip(strip(r.get("val"), casts=True)["args"][0], casts=True)) == name_p)]
            built = [(q, r) for (q, r) in rets if q not in unchanged]
            ese = f.calls(r"::extract_stem_and_extension$")
            from_same = bool(ese) and all(var_ref(strip(c["args"][0], casts=True)) == name_p for c in ese)
            shape_ok = bool(built)
            shapes = []
            for (q, r) in built:
                ks = [kind(x, f, p) for x in pieces(r.get("val"))]
                shapes.append(ks)
                want_mid = "to_string(index)" if test == "index" else "text"
                shape_ok = shape_ok and len(ks) == 4 and ks[0] == "stem" and ks[1] == "'.'" and ks[2] == want_mid and ks[3] == "ext"
            pol = bool(same_edges) and bool(unchanged) and not g.exists_path([g.entry_node], unchanged, avoid_edges=same_edges) and \
                not g.exists_path([g.entry_node], [q for (q, r) in built], avoid_edges=[(b, other(l)) for (b, l) in same_edges])
            ctx.ob("C14.R4g", "RotatingSink<%s>::%s:suffix-in-front-of-the-extension" % (inst(f), base), pol and shape_ok and from_same,
                   "the name comes back unchanged exactly on '%s' and is otherwise stem + '.' + %s + ext of that same name (polarity %s, "
                   "pieces %s, split of the same name %s)" % ("index == 0" if test == "index" else "text is empty", test, pol, shapes, from_same), fn=f)
    ctx.floor("C14.R4g", "append helpers", n, 4)
    e = facts.need("quill::FileSink::extract_stem_and_extension", "A")[0]
    p0 = e.rec["params"][0]["did"]
    rets = [e.g.node_ast(q) for q in e.g.return_nodes()]
    ok = len(rets) == 1
    if ok:
        mk = [x for x in walk(rets[0].get("val")) if is_call(x, r"^std::make_pair") or (x["k"] in ("CXXConstructExpr", "InitListExpr") and len(x.get("args") or x.get("c") or []) == 2)]
        ok = bool(mk)
        if ok:
            a0, a1 = (mk[0].get("args") or mk[0].get("c"))[:2]
            c0 = [short(x.get("callee") or "").split("::")[-1] for x in walk(a0) if is_call(x) and var_ref(call_obj(x)) == p0]
            c1 = [short(x.get("callee") or "").split("::")[-1] for x in walk(a1) if is_call(x) and var_ref(call_obj(x)) == p0]
            ok = sorted(c0) == ["parent_path", "stem"] and c1 == ["extension"] and any(is_call(x, r"operator/$") for x in walk(a0))
    ctx.ob("C14.R4h", "FileSink::extract_stem_and_extension:splits-at-the-extension", ok,
           "first = parent_path() / stem(), second = extension() of the same path: first + second is the path again", fn=e)
