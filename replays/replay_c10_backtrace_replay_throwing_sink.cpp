// C10 / C18: "if a sink's write throws, the error is reported and at most that one statement is missing from that sink ... Every other
// statement is still delivered exactly once". init_backtrace(8); four LOG_BACKTRACE statements; the sink throws on the second replayed
// write; flush_backtrace(). BacktraceStorage::process forgets the stored statements only after the whole loop, and nothing contains
// the exception per replayed statement: the first flush writes bt1 only (bt3, bt4 missing too), a second flush writes all four again.
#include "quill/Backend.h"
#include "quill/Frontend.h"
#include "quill/LogMacros.h"
#include "quill/Logger.h"
#include "quill/sinks/Sink.h"
#include <cstdio>
#include <stdexcept>
#include <string>
#include <vector>
struct Rec : quill::Sink { std::vector<std::string> got; bool thrown{false};
  void write_log(quill::MacroMetadata const*, uint64_t, std::string_view, std::string_view, std::string const&, std::string_view,
                 quill::LogLevel, std::string_view, std::string_view, std::vector<std::pair<std::string, std::string>> const*, std::string_view msg, std::string_view) override {
    if (msg == "bt2" && !thrown) { thrown = true; throw std::runtime_error("disk full while writing bt2"); }
    got.emplace_back(msg); }
  void flush_sink() override {} };
int main() {
  int errors = 0;
  quill::ManualBackendWorker* w = quill::Backend::acquire_manual_backend_worker();
  quill::BackendOptions bo; bo.error_notifier = [&](std::string const& s) { ++errors; std::printf("notifier: %s\n", s.c_str()); };
  w->init(bo);
  auto sink = quill::Frontend::create_or_get_sink<Rec>("rec");
  auto* l = quill::Frontend::create_or_get_logger("root", sink);
  l->init_backtrace(8);
  LOG_BACKTRACE(l, "bt1"); LOG_BACKTRACE(l, "bt2"); LOG_BACKTRACE(l, "bt3"); LOG_BACKTRACE(l, "bt4");
  l->flush_backtrace();
  for (int i = 0; i < 50; ++i) w->poll_one();
  l->flush_backtrace();
  for (int i = 0; i < 50; ++i) w->poll_one();
  auto* r = static_cast<Rec*>(sink.get());
  std::printf("sink received:"); for (auto& s : r->got) std::printf(" %s", s.c_str()); std::printf("  (%d error(s) reported)\n", errors);
  bool ok = r->got == std::vector<std::string>{"bt1", "bt3", "bt4"} && errors == 1;
  std::printf("%s\n", ok ? "OK: only the statement whose write threw is missing, nothing twice" : "REPLAY TRUNCATED / DUPLICATED");
  std::fflush(stdout); std::_Exit(ok ? 0 : 1);
}
