"""C03 — every accepted statement reaches each sink once, in thread order (DESIGN §4 C03)."""
import re
from qlib import (peel_not, AnalysisBroken, strip, isnode, walk, is_call, norm_cmp, var_ref, is_null, const_val, short, call_obj,
                  expr_key, field_name, is_this_field)
from rules.c02 import cmp_sides as cmp_sides_
from rules.common import (core_and_neg, tnode, other, cpos, npos, branches_on_call, flatten, in_subtree, try_stack,
                          handler_info, loops_enclosing, need_some, returns_bool, branches_on_var_null)
import roles as roles_mod

EXPLANATION = ("Backend hand-over chain. R1 consume-after-decode: in both instantiations of the queue read loop every path to "
               "finish_read passes, in the same iteration, the decode call with outcome true, and the consumed size is read_pos - "
               "read_begin with read_begin copied before the decode. R2: the decode function commits exactly one transit event "
               "(push_back on the buffer whose back() produced the event) on every path returning true and none on paths "
               "returning false, after the last write to the event. R3: the dispatch function pops exactly one event on paths "
               "returning true (none on false), from the buffer of the context whose front() was dispatched, after the dispatch "
               "and outside its try block, and every handler falls through to the pop. R4: write_log sits in a loop over all "
               "sinks of the logger with no break/return, guarded only by that sink's own filters. R5: a thread context is "
               "removed only under 'invalid and queue empty and transit buffer empty' (both queue kinds). R6: the transit buffer "
               "grows by moving events in order. R7: only backend-role code consumes queues and transit buffers."
               ' R6d-i: TransitEventBuffer ring rules. R8-R10 (= C20.R5, C17.R3, C07.R1): the backend sees every registered context, an accepted removal is carried out, the exit drain leaves only when empty.'
               ' R12 (= C12.R9a): a statement made with run-time source metadata is turned into an ordinary Log event on every formatting path of the decoder, named-args arm included. R13 (= C05.R2) hold-back exemptions; R14: the LoggerBase constructor stores every parameter (name, sinks, options, clock) in its member; R15 (= C05.R3): the selection passes a buffered statement over only in favour of one already chosen; R4t also asks that copy_to carries the text (append / assign, not reserve) and copies the named args exactly when there are some.'
               ' R16 (= C05.R9): exits of the per-queue read loop.')
NOT_DECIDED = ("End-to-end exactly-once / order over all schedules, thread exits and limits (behavioural; depends on C01/C02 "
               "holding as behaviour and on value reasoning about the soft/hard limits).")
ASSUMPTIONS = ["clang CFG without EH edges; exceptional flow is covered by the try/catch structure rules (R3, C10)"]

BW = "quill::detail::BackendWorker::"


def run(ctx):
    configs = ["A"] if ctx.tier == "quick" else ["A", "B"]
    for cfg in configs:
        facts = ctx.facts("core.cpp", cfg)
        r1(ctx, facts, cfg)
        r2(ctx, facts, cfg)
        r3(ctx, facts, cfg)
        r4(ctx, facts, cfg)
        r5(ctx, facts, cfg)
        r6(ctx, facts, cfg)
        r6_ring(ctx, facts, cfg)
        r7(ctx, facts, cfg)
        transit_event_transfer(ctx, facts, cfg, "C03.R4")
        # the backend sees every thread's queue: registration, the 'new context' flag and the cache reload (shared with C20.R5)
        from rules import c20
        from rules.c09 import Renamed as _Renamed
        c20.r5(_Renamed(ctx, "C20.R5", "C03.R8"), facts, cfg)
        c20.registry_walks(_Renamed(_Renamed(ctx, "C20.R5", "C03.R8"), "C20.R2f", "C03.R8h"), facts, cfg)
        union_discriminant(ctx, facts, cfg)
        # a queued statement keeps its logger: loggers are erased only when everything is drained (shared with C17.R3); a statement that
        # fits under the maximum is accepted (C02.R4 in its strict form, shared with C09.R4)
        from rules import c17, c02 as _c02
        c17.r3(_Renamed(ctx, "C17.R3", "C03.R9"), facts, cfg)
        # accepted statements still in the queues when stop() is called are delivered: the exit drain leaves only when the emptiness test
        # says so (statements held back by the grace period are still in the queue when a pass reads nothing) (= C07.R1)
        from rules import c07 as _c07
        _c07.r1(_Renamed(ctx, "C07.R1", "C03.R10"), facts, cfg)
        console_sink_forwards(ctx, facts, cfg)
        _bn = {m.base: m for m in facts.fns if m.config == cfg and m.cls == _c02.CLS and not m.rec.get("ctor") and not m.rec.get("dtor")}
        _c02.check_r4(_Renamed(ctx, "C02.R4", "C03.R9-cap-"), _bn, strict=True)
        queue_kind_tables(ctx, facts, cfg)
        logger_keeps_what_it_is_given(ctx, facts, cfg)
        # nothing but the documented hold-back keeps an accepted statement in its queue: only a timestamp later than 'now - grace period'
        # of a non-user clock does, and only until time has passed (= C05.R2); the read position handed back after a node switch is the
        # new node's (= C20.R4)
        from rules import c05 as _c05
        _c05.r2(_Renamed(ctx, "C05.R2", "C03.R13"), facts, cfg)
        # every buffered statement is selected at some point: the search for the oldest front event passes a candidate over only in
        # favour of one already chosen (= C05.R3)
        _c05.r3(_Renamed(ctx, "C05.R3", "C03.R15"), facts, cfg)
        _c05.r9_read_pass_exits(ctx, facts, cfg, rule="C03.R16")
        if cfg == "A":
            # a statement made with run-time source metadata is turned into an ordinary Log event on every path of the decoder, whatever
            # its template looks like: no other kind of statement event is dispatched to the sinks (= C12.R9a)
            from rules import c12 as _c12
            _c12.r9_runtime_metadata(_Renamed(ctx, "C12.R9a", "C03.R12"), facts, only=("C12.R9a",))
        buffered_iff_true(ctx, facts, cfg)
        from rules import c02
        from rules.c09 import Renamed
        bn = {m.base: m for m in facts.fns if m.config == cfg and m.cls == c02.CLS and not m.rec.get("ctor") and not m.rec.get("dtor")}
        if "empty" not in bn:
            raise AnalysisBroken("UnboundedSPSCQueue::empty not found")
        c02.check_empty_semantics(ctx, bn, rule="C03.R5f")


def r1(ctx, facts, cfg):
    for f in facts.need(BW + "_read_and_decode_frontend_queue", cfg, floor=2):
        g = f.g
        site = "_read_and_decode_frontend_queue<%s>" % ("Unbounded" if "Unbounded" in f.name else "Bounded")
        fin = need_some(f.calls(r"::finish_read$"), site + " finish_read")
        fpos = npos(f, fin)
        br = branches_on_call(f, r"::_populate_transit_event_from_frontend_queue$")
        if not br:
            raise AnalysisBroken(site + ": branch on the decode call not found")
        bid, tlab, call = br[0]
        ok = not g.exists_path([g.entry_node], fpos, avoid_edges=[(bid, tlab)]) and \
            not g.exists_path(fpos, fpos, avoid_edges=[(bid, tlab)])
        ctx.ob("C03.R1a", site + ":consume-after-decode", ok,
               "every path to finish_read passes, in the same loop iteration, the decode call with outcome true "
               "(a held-back or failed record is never consumed)", loc=fin[0]["loc"], fn=f)
        # consumed size = read_pos - read_begin, read_begin copied from read_pos before the decode call
        inits = f.var_inits()
        rp = var_ref(call["args"][0])
        sz = var_ref(fin[0]["args"][0])
        ok = False
        why = "size variable has no initialiser"
        if sz in inits and rp is not None:
            e = strip(inits[sz], casts=True)
            if isnode(e) and e["k"] == "BinaryOperator" and e["op"] == "-" and var_ref(e["lhs"]) == rp:
                rb = var_ref(e["rhs"])
                if rb in inits and var_ref(inits[rb]) == rp:
                    # the copy precedes the decode call in the same iteration
                    decl = [n for n in f.walk() if n["k"] == "DeclStmt" and any(d["did"] == rb for d in n.get("decls", []))]
                    dpos = npos(f, decl)
                    cp = g.positions(call)
                    ok = bool(dpos) and all(g.dominates(dpos, p) for p in cp) and \
                        not any(d in g.reach(cp, avoid_nodes=fpos) for d in dpos)
                    why = "copy of the read position precedes the decode call: %s" % ok
                else:
                    why = "subtrahend is not a copy of the read position"
            else:
                why = "consumed size is not read_pos - read_begin"
        ctx.ob("C03.R1b", site + ":consumed-size", ok,
               "the number of bytes consumed is the distance the decoder advanced the read position in this iteration (%s)" % why,
               loc=fin[0]["loc"], fn=f)
        # the pointer decoded is the one prepare_read / _read_unbounded_frontend_queue returned, null-checked
        srcs = f.calls(r"::(prepare_read|_read_unbounded_frontend_queue)$")
        asg = [n for n in f.walk() if n["k"] == "BinaryOperator" and n["op"] == "=" and var_ref(n["lhs"]) == rp and
               any(in_subtree(s, n["rhs"]) for s in srcs)]
        apos = npos(f, asg)
        cp = g.positions(call)
        nulls = branches_on_var_null(f, rp)
        ok = bool(apos) and all(g.dominates(apos, p) for p in cp) and bool(nulls) and \
            not g.exists_path(apos, cp, avoid_edges=[(b, other(nl)) for (b, nl) in nulls])
        ctx.ob("C03.R1c", site + ":decode-only-nonnull", ok,
               "the decoder runs only on a non-null pointer freshly obtained from the queue in this iteration", fn=f)


def r2(ctx, facts, cfg):
    f = facts.need(BW + "_populate_transit_event_from_frontend_queue", cfg)[0]
    g = f.g
    pb = f.calls(r"TransitEventBuffer::push_back$")
    ppos = npos(f, pb)
    trues, falses = returns_bool(f, True), returns_bool(f, False)
    if not trues or not falses:
        raise AnalysisBroken("_populate_transit_event_from_frontend_queue: literal true/false returns expected")
    if len(trues) + len(falses) != len(g.return_nodes()):
        raise AnalysisBroken("_populate_transit_event_from_frontend_queue: non-literal return value")
    cnt = g.count_on_paths([g.entry_node], trues + falses, ppos)
    ok_t = all(cnt[t] == (1, 1) for t in trues)
    ok_f = all(cnt[x] == (0, 0) for x in falses)
    ctx.ob("C03.R2a", "_populate_transit_event_from_frontend_queue:commit-iff-true", ok_t and ok_f,
           "exactly one push_back on every path returning true %s, none on paths returning false %s" %
           ([cnt[t] for t in trues], [cnt[x] for x in falses]), fn=f)
    # the event written is back() of the same buffer
    inits = f.var_inits()
    backs = f.calls(r"TransitEventBuffer::back$")
    ok = False
    ev = None
    if backs and pb:
        for vid, i in inits.items():
            if isnode(i) and in_subtree(backs[0], i):
                ev = vid
        ok = ev is not None and expr_key(call_obj(backs[0])) == expr_key(call_obj(pb[0]))
    ctx.ob("C03.R2b", "_populate_transit_event_from_frontend_queue:same-buffer", ok,
           "the committed slot is the one back() handed out: push_back is applied to the same buffer expression", fn=f)
    # nothing writes to the event after the commit
    if ev is not None:
        uses = [n for n in f.walk() if n["k"] == "DeclRefExpr" and n.get("did") == ev]
        ok = not g.exists_path(ppos, npos(f, uses))
        ctx.ob("C03.R2c", "_populate_transit_event_from_frontend_queue:commit-last", ok,
               "the transit event is not touched after push_back (it is visible to the dispatcher from then on)", fn=f)


def r3(ctx, facts, cfg):
    f = facts.need(BW + "_process_lowest_timestamp_transit_event", cfg)[0]
    g = f.g
    pops = f.calls(r"TransitEventBuffer::pop_front$")
    ppos = npos(f, pops)
    trues, falses = returns_bool(f, True), returns_bool(f, False)
    if not trues or not falses or len(trues) + len(falses) != len(g.return_nodes()):
        raise AnalysisBroken("_process_lowest_timestamp_transit_event: literal true/false returns expected")
    cnt = g.count_on_paths([g.entry_node], trues + falses, ppos)
    ctx.ob("C03.R3a", "_process_lowest_timestamp_transit_event:pop-iff-true",
           all(cnt[t] == (1, 1) for t in trues) and all(cnt[x] == (0, 0) for x in falses),
           "exactly one pop_front on every path returning true %s, none on paths returning false %s" %
           ([cnt[t] for t in trues], [cnt[x] for x in falses]), fn=f)
    disp = need_some(f.calls(r"::_process_transit_event$"), "_process_transit_event call")
    dpos = npos(f, disp)
    ok = bool(ppos) and all(g.dominates(dpos, p) for p in ppos) and not g.exists_path(ppos, dpos)
    ctx.ob("C03.R3b", "_process_lowest_timestamp_transit_event:dispatch-before-pop", ok,
           "the event is dispatched before it is popped, and not again afterwards", fn=f)
    # same context: front() and pop_front() on <tc>->_transit_event_buffer with the same tc variable; dispatched event = that front()
    inits = f.var_inits()
    ok = False
    why = ""
    if pops:
        pobj = call_obj(pops[0])
        fronts = [c for c in f.calls(r"TransitEventBuffer::front$") if expr_key(call_obj(c)) == expr_key(pobj)]
        evs = [vid for vid, i in inits.items() if isnode(i) and any(in_subtree(c, i) for c in fronts)]
        args = [var_ref(strip(a, casts=True)) if var_ref(strip(a, casts=True)) is not None else
                var_ref(strip(a, casts=True).get("sub")) if isnode(strip(a, casts=True)) and strip(a, casts=True)["k"] == "UnaryOperator" else None
                for a in disp[0]["args"]]
        ok = bool(fronts) and any(e in args for e in evs)
        why = "front() on the popped buffer: %d, dispatched event is its result: %s" % (len(fronts), ok)
    ctx.ob("C03.R3c", "_process_lowest_timestamp_transit_event:same-context", ok,
           "the popped buffer belongs to the context whose front() event was dispatched (%s)" % why, fn=f)
    # exception structure: pop_front is not inside the try block that encloses the dispatch; handlers neither rethrow nor return
    ts = try_stack(f, disp[0])
    ok = True
    for p in pops:
        if any(t in try_stack(f, p) for t in ts):
            ok = False
    hinfo = [h for t in ts for h in handler_info(t)]
    ok2 = all(not rt and not ret for (c, rt, ret, body) in hinfo)
    ctx.ob("C03.R3d", "_process_lowest_timestamp_transit_event:pop-outside-try", ok and ok2,
           "pop_front lies outside the try block around the dispatch and no handler rethrows/returns: a throwing sink cannot make "
           "the same event be dispatched again (duplicate)", fn=f)
    # handler continuations reach pop_front: from each catch block every path to exit passes pop
    cb = [bid for bid, b in g.blocks.items() if b.get("label") == "CXXCatchStmt"]
    ok = True
    for bid in cb:
        if g.exists_path([(bid, 0)], [g.exit_node], avoid_nodes=ppos) and (bid, 0) not in ppos:
            ok = False
    if ts:
        ctx.ob("C03.R3e", "_process_lowest_timestamp_transit_event:handlers-reach-pop", ok and bool(cb),
               "every exception handler around the dispatch falls through to the pop (%d handler block(s))" % len(cb), fn=f)


def r4(ctx, facts, cfg):
    f = facts.need(BW + "_write_log_statement", cfg)[0]
    wl = need_some(f.calls(r"::Sink::write_log$"), "_write_log_statement: Sink::write_log call")
    for w in wl:
        loops = loops_enclosing(f, w)
        ok = False
        why = "write_log is not inside a loop"
        if loops and loops[0]["k"] != "CXXForRangeStmt":
            raise AnalysisBroken("_write_log_statement: the loop around write_log is not a range-for: shape not covered")
        if loops:
            lp = loops[0]
            rng = strip(lp.get("range")) if lp["k"] == "CXXForRangeStmt" else None
            over_sinks = isnode(rng) and rng["k"] == "MemberExpr" and rng.get("mname") == "sinks"
            body = lp.get("body")
            early = [x for x in walk(body) if x["k"] in ("BreakStmt", "ReturnStmt", "GotoStmt", "ContinueStmt")]
            # lambdas inside the body do not count
            lv = lp.get("loopvar", {}).get("did")
            # conditionals between the loop and the call
            conds = []
            prev = w
            for a in f.ancestors(w):
                if a is lp:
                    break
                if a["k"] == "IfStmt":
                    conds.append(a)
                if a["k"] in ("SwitchStmt", "ConditionalOperator", "WhileStmt", "DoStmt", "ForStmt"):
                    conds.append(a)
                prev = a
            only_filter = True
            for c in conds:
                good = False
                if c["k"] == "IfStmt":
                    core, neg = core_and_neg(c.get("cond"))
                    if is_call(core, r"::Sink::apply_all_filters$") and not neg and in_subtree(w, c.get("then")):
                        o = call_obj(core)
                        good = o is not None and any(x["k"] == "DeclRefExpr" and x.get("did") == lv for x in walk(o))
                if not good:
                    only_filter = False
            wobj = call_obj(w)
            same_sink = wobj is not None and any(x["k"] == "DeclRefExpr" and x.get("did") == lv for x in walk(wobj))
            ok = over_sinks and not early and only_filter and same_sink
            why = "loop over sinks: %s, early exits in body: %d, only the sink's own filter guards the write: %s, written sink is the loop element: %s" % (
                over_sinks, len(early), only_filter, same_sink)
        ctx.ob("C03.R4", "_write_log_statement:all-sinks", ok,
               "write_log is invoked for every sink of the logger, subject only to that sink's filters (%s)" % why, loc=w["loc"], fn=f)


def r5(ctx, facts, cfg):
    f = facts.need(BW + "_cleanup_invalidated_thread_contexts", cfg)[0]
    lams = [x for x in facts.fns if x.config == cfg and x.rec.get("parent") == f.name]
    rem = need_some(f.calls(r"::remove_shared_invalidated_thread_context$"), "remove_shared_invalidated_thread_context call")
    inits = f.var_inits()
    # predicate lambda: the one passed to find_if whose result is removed
    finds = f.calls(r"^std::find_if")
    pred_vars = set()
    for c in finds:
        if len(c.get("args", [])) >= 3:
            v = var_ref(strip(c["args"][2], casts=True))
            if v is not None:
                pred_vars.add(v)
    lam = None
    for vid in pred_vars:
        i = inits.get(vid)
        for x in walk(i) if isnode(i) else []:
            if x["k"] == "LambdaExpr":
                for l in lams:
                    if l.name.endswith(x["lambda"]):
                        lam = l
    if lam is None:
        # the predicate as a (static) member function of the worker handed to find_if by name
        named = set()
        for c in finds:
            if len(c.get("args", [])) >= 3:
                for x in walk(c["args"][2]):
                    if x["k"] == "DeclRefExpr" and x.get("dk") in ("CXXMethod", "Function") and x.get("name"):
                        named.add(x["name"])
        if len(named) == 1:
            cand = [x for x in facts.fns if x.config == cfg and x.name == list(named)[0]]
            if len(cand) == 1:
                lam = cand[0]
                pred_vars = {None}
    if lam is None or len(pred_vars) != 1:
        raise AnalysisBroken("_cleanup_invalidated_thread_contexts: removal predicate lambda not identified")
    # removed element / erased element come from find_if(pred)
    itv = [vid for vid, i in inits.items() if isnode(i) and any(in_subtree(c, i) for c in finds)]
    def from_it(a):
        return any(x["k"] == "DeclRefExpr" and x.get("did") in itv for x in walk(a))
    er = f.calls(r"std::vector<.*>::erase$")
    ok = bool(itv) and all(from_it(c["args"][0]) for c in rem) and bool(er) and all(from_it(c["args"][0]) for c in er)
    # re-assignments of the iterator also come from find_if with the same predicate
    for a in f.assignments_to_var(itv[0]) if itv else []:
        ok = ok and any(in_subtree(c, a["rhs"]) for c in finds)
    ok = ok and all(var_ref(strip(c["args"][2], casts=True)) in pred_vars for c in finds if len(c.get("args", [])) >= 3)
    ctx.ob("C03.R5a", "_cleanup_invalidated_thread_contexts:removes-what-predicate-found", ok,
           "the context removed from the manager and erased from the cache is the one selected by find_if with the removal predicate, "
           "and the loop guard compares it against end()", fn=f)
    # guard it != end
    g = f.g
    rpos = npos(f, rem)
    guard = []
    for bid, b in g.blocks.items():
        c = g.term_cond(bid)
        nc = norm_cmp(c) if c is not None else None
        if c is not None and any(x["k"] == "DeclRefExpr" and x.get("did") in itv for x in walk(c)) and \
                any(is_call(x, r"^std::(end|cend)|::c?end$") for x in walk(c)):
            core, neg = core_and_neg(c)
            opname = core.get("callee", "") if is_call(core) else core.get("op", "")
            ne = ("!=" in opname)
            if neg:
                ne = not ne
            guard.append((bid, "T" if ne else "F"))
    ok = bool(guard) and not g.exists_path([g.entry_node], rpos, avoid_edges=guard)
    ctx.ob("C03.R5b", "_cleanup_invalidated_thread_contexts:only-when-found", ok,
           "removal happens only on the 'found' outcome of the comparison with end()", fn=f)
    # the predicate: every return that may be true is under !is_valid() and tests queue.empty() && buffer.empty()
    lg = lam.g
    rets = lg.return_nodes()
    maybe_true = [r for r in rets if const_val(lg.node_ast(r).get("val")) != 0]
    valid_br = branches_on_call(lam, r"::ThreadContext::is_valid$")
    ok_valid = bool(valid_br) and not lg.exists_path([lg.entry_node], maybe_true, avoid_edges=[(b, other(t)) for (b, t, c) in valid_br])
    ctx.ob("C03.R5c", "removal-predicate:only-invalid", ok_valid,
           "the predicate can return true only for a context whose thread has exited (!is_valid())", fn=lam)
    arms = 0
    ok_all = bool(maybe_true)
    for r in maybe_true:
        v = lg.node_ast(r).get("val")
        conj = flatten(v, "&&")
        q = [c for c in conj if is_call(c, r"SPSCQueue(Impl<.*>)?::empty$")]
        b = [c for c in conj if is_call(c, r"TransitEventBuffer::empty$")]
        negs = [c for c in conj if isnode(c) and c["k"] == "UnaryOperator"]
        arm_ok = len(q) == 1 and len(b) == 1 and not negs
        arms += 1
        ok_all = ok_all and arm_ok
        ctx.ob("C03.R5d", "removal-predicate:arm#%d" % arms, arm_ok,
               "removal requires the frontend queue to be empty AND the transit buffer to be empty (statements decoded but not yet "
               "written are not lost when the thread has exited) — conjuncts: queue.empty()=%d buffer.empty()=%d" % (len(q), len(b)),
               loc=lg.node_ast(r)["loc"], fn=lam)
    qkinds = set()
    for r in maybe_true:
        for c in flatten(lg.node_ast(r).get("val"), "&&"):
            if is_call(c, r"SPSCQueue(Impl<.*>)?::empty$"):
                qkinds.add("U" if "Unbounded" in c["callee"] else "B")
    ctx.ob("C03.R5e", "removal-predicate:both-queue-kinds", qkinds == {"U", "B"},
           "the bounded and the unbounded arm of the predicate both exist and agree (sibling agreement): %s" % sorted(qkinds), fn=lam)


def r6(ctx, facts, cfg):
    f = facts.need("quill::detail::TransitEventBuffer::_expand", cfg)[0]
    loops = [n for n in f.walk() if n["k"] == "ForStmt"]
    ok = False
    why = "copy loop not found"
    for lp in loops:
        init = lp.get("init")
        iv = None
        if isnode(init) and init["k"] == "DeclStmt" and init.get("decls"):
            iv = init["decls"][0]["did"]
            start0 = const_val(init["decls"][0].get("init")) == 0
        else:
            continue
        # body: new_storage[i] = move(_storage[(_reader_pos + i) & _mask])
        for n in walk(lp.get("body")):
            if is_call(n, r"operator=$") and len(n.get("args", [])) == 2:
                dst, src = n["args"][0], n["args"][1]
                dsub = [x for x in walk(dst) if is_call(x, r"operator\[\]$")]
                ssub = [x for x in walk(src) if is_call(x, r"operator\[\]$")]
                if not dsub or not ssub:
                    continue
                didx = strip(dsub[0]["args"][1], casts=True)
                sidx = strip(ssub[0]["args"][1], casts=True)
                d_ok = var_ref(didx) == iv
                s_ok = False
                if isnode(sidx) and sidx["k"] == "BinaryOperator" and sidx["op"] == "&":
                    a, b = strip(sidx["lhs"], casts=True), strip(sidx["rhs"], casts=True)
                    if is_this_field(b, "_mask") and isnode(a) and a["k"] == "BinaryOperator" and a["op"] == "+":
                        terms = [a["lhs"], a["rhs"]]
                        s_ok = any(is_this_field(t, "_reader_pos") for t in terms) and any(var_ref(t) == iv for t in terms)
                src_is_old = is_this_field(call_obj(ssub[0]), "_storage")
                # trip count: i < size()  (a local initialised from size())
                c = lp.get("cond")
                nc = norm_cmp(c)
                cc = peel_not(c)
                bound_ok = False
                if nc and nc[0] == "<" and isnode(cc) and cc["k"] == "BinaryOperator" and cc["op"] == "<" and var_ref(cc["lhs"]) == iv:
                    bv = var_ref(cc["rhs"])
                    bi = f.var_inits().get(bv)
                    bound_ok = isnode(bi) and any(is_call(x, r"TransitEventBuffer::size$") for x in walk(bi)) or \
                        any(is_call(x, r"TransitEventBuffer::size$") for x in walk(cc["rhs"]))
                inc = strip(lp.get("inc"))
                inc_ok = isnode(inc) and inc["k"] == "UnaryOperator" and inc["op"] == "++" and var_ref(inc["sub"]) == iv
                ok = d_ok and s_ok and src_is_old and bound_ok and inc_ok and start0
                why = "dst index = i: %s, src index = (reader + i) & mask: %s, src is old storage: %s, i in [0,size()): %s" % (
                    d_ok, s_ok, src_is_old, bound_ok and inc_ok and start0)
    ctx.ob("C03.R6a", "TransitEventBuffer::_expand:order-preserving-copy", ok,
           "growth moves the i-th oldest event to slot i (%s)" % why, fn=f)
    # afterwards reader = 0, writer = size, mask = capacity - 1
    asg = {}
    for n in f.walk():
        if n["k"] == "BinaryOperator" and n["op"] == "=" and is_this_field(n["lhs"]):
            asg[field_name(n["lhs"])] = n["rhs"]
    inits = f.var_inits()
    wv = var_ref(asg.get("_writer_pos"))
    w_ok = wv in inits and any(is_call(x, r"TransitEventBuffer::size$") for x in walk(inits[wv]))
    r_ok = const_val(asg.get("_reader_pos")) == 0
    mk = strip(asg.get("_mask"), casts=True)
    m_ok = isnode(mk) and mk["k"] == "BinaryOperator" and mk["op"] == "-" and const_val(mk["rhs"]) == 1 and \
        (is_this_field(mk["lhs"], "_capacity") or var_ref(mk["lhs"]) == var_ref(asg.get("_capacity")))
    ctx.ob("C03.R6b", "TransitEventBuffer::_expand:positions-reset", w_ok and r_ok and m_ok,
           "after growth reader = 0, writer = number of moved events, mask = capacity - 1 (writer: %s reader: %s mask: %s)" % (w_ok, r_ok, m_ok), fn=f)
    # front/back/pop/push index discipline
    for (mname, pos) in (("front", "_reader_pos"), ("back", "_writer_pos")):
        m = facts.need("quill::detail::TransitEventBuffer::" + mname, cfg)[0]
        rets = [m.g.node_ast(r) for r in m.g.return_nodes(lambda r: not is_null(r.get("val")))]
        ok = bool(rets)
        for r in rets:
            idx = [x for x in walk(r.get("val")) if is_call(x, r"operator\[\]$")]
            if not idx:
                ok = False
                continue
            e = strip(idx[0]["args"][1], casts=True)
            ok = ok and isnode(e) and e["k"] == "BinaryOperator" and e["op"] == "&" and \
                ((is_this_field(e["lhs"], pos) and is_this_field(e["rhs"], "_mask")) or (is_this_field(e["rhs"], pos) and is_this_field(e["lhs"], "_mask")))
        ctx.ob("C03.R6c", "TransitEventBuffer::%s:slot" % mname, ok, "%s() hands out slot (%s & _mask)" % (mname, pos), fn=m)
    for (mname, pos) in (("pop_front", "_reader_pos"), ("push_back", "_writer_pos")):
        m = facts.need("quill::detail::TransitEventBuffer::" + mname, cfg)[0]
        incs = [n for n in m.walk() if (n["k"] == "UnaryOperator" and n["op"] == "++" and is_this_field(n["sub"], pos)) or
                (n["k"] == "CompoundAssignOperator" and n["op"] == "+=" and is_this_field(n["lhs"], pos) and const_val(n["rhs"]) == 1)]
        others = [n for n in m.walk() if n["k"] in ("UnaryOperator", "CompoundAssignOperator", "BinaryOperator") and n.get("op") in ("++", "--", "+=", "-=", "=") and n not in incs]
        ctx.ob("C03.R6c", "TransitEventBuffer::%s:advance" % mname, len(incs) == 1 and not others,
               "%s() advances %s by exactly one" % (mname, pos), fn=m)


def r6_ring(ctx, facts, cfg):
    """R6d-h: the rest of the per-thread event ring: what empty / size mean, when front has nothing, when back grows, by how much,
    and when it shrinks"""
    TB = "quill::detail::TransitEventBuffer::"
    # R6j: moving a ring carries every member across, and the moved-from ring is empty (reader == writer)
    # (armed only if the library moves a ring at all: on the pinned tree every ring lives behind a shared_ptr and is never moved — the
    # move operations, which do not carry _shrink_requested, are dead code as far as the properties go)
    movers = [(f.short, c["loc"]) for f in facts.fns if f.config == cfg and not f.short.startswith("qv::") and f.cls != "quill::detail::TransitEventBuffer"
              for c in f.walk() if c["k"] in ("CXXConstructExpr", "CXXTemporaryObjectExpr", "CXXOperatorCallExpr") and
              re.search(r"TransitEventBuffer::(TransitEventBuffer|operator=)$", c.get("callee") or "") and "TransitEventBuffer &&" in (c.get("sig") or "")]
    if movers:
        rs = memberwise_move(ctx, facts, cfg, "C03.R6j", "quill::detail::TransitEventBuffer", "TransitEventBuffer", 6)
        ctx.ob("C03.R6j", "TransitEventBuffer:moved-from-is-empty", rs.get("_reader_pos") is not None and rs.get("_reader_pos") == rs.get("_writer_pos"),
               "the source of a move is left with reader position == writer position (what empty() tests): %s" % rs)
    else:
        ctx.note("TransitEventBuffer's move constructor / move assignment have no call site in the library (every ring lives behind a "
                 "shared_ptr): the member-wise move rule C03.R6j is not armed; observed: they do not carry _shrink_requested")

    def single_ret(m):
        rets = [m.g.node_ast(r).get("val") for r in m.g.return_nodes()]
        return strip(rets[0], casts=True) if len(rets) == 1 else None
    e = facts.need(TB + "empty", cfg)[0]
    v = single_ret(e)
    ok_e = isnode(v) and v["k"] == "BinaryOperator" and v["op"] == "==" and {field_name(v["lhs"]), field_name(v["rhs"])} == {"_reader_pos", "_writer_pos"} and \
        is_this_field(v["lhs"]) and is_this_field(v["rhs"])
    sz = facts.need(TB + "size", cfg)[0]
    v = single_ret(sz)
    ok_s = isnode(v) and v["k"] == "BinaryOperator" and v["op"] == "-" and is_this_field(v["lhs"], "_writer_pos") and is_this_field(v["rhs"], "_reader_pos")
    ctx.ob("C03.R6d", "TransitEventBuffer::empty/size", ok_e and ok_s,
           "empty() is reader == writer and size() is writer - reader (what the drain, clean-up and limit tests of the backend rest on): "
           "empty %s, size %s" % (ok_e, ok_s), fn=e)
    fr = facts.need(TB + "front", cfg)[0]
    g = fr.g
    nul = [r for r in g.return_nodes() if is_null(g.node_ast(r).get("val"))]
    oth = [r for r in g.return_nodes() if r not in nul]
    et = []
    for bid, b in g.blocks.items():
        c = g.term_cond(bid)
        nc = norm_cmp(c) if c is not None else None
        if nc and nc[0] in ("==", "!=") and {nc[1], nc[2]} == {"this._reader_pos", "this._writer_pos"}:
            et.append((bid, "T" if nc[0] == "==" else "F"))
        elif c is not None and is_call(core_and_neg(c)[0], r"TransitEventBuffer::empty$"):
            et.append((bid, "F" if core_and_neg(c)[1] else "T"))
    ok = bool(nul) and bool(oth) and bool(et) and not g.exists_path([g.entry_node], nul, avoid_edges=et) and \
        not g.exists_path([g.entry_node], oth, avoid_edges=[(b, other(l)) for (b, l) in et])
    ctx.ob("C03.R6e", "TransitEventBuffer::front:nothing-iff-empty", ok,
           "front() returns nullptr exactly on the 'reader == writer' outcome and a slot otherwise", fn=fr)
    bk = facts.need(TB + "back", cfg)[0]
    g = bk.g
    ex = npos(bk, bk.calls(r"TransitEventBuffer::_expand$"))
    full = []
    for bid, b in g.blocks.items():
        c = g.term_cond(bid)
        nc = norm_cmp(c) if c is not None else None
        if nc and nc[0] in ("==", "!=") and "this._capacity" in (nc[1], nc[2]) and any(is_call(x, r"TransitEventBuffer::size$") for x in walk(c)):
            full.append((bid, "T" if nc[0] == "==" else "F"))
        elif nc and nc[0] in ("<=",) and nc[1] == "this._capacity" and any(is_call(x, r"TransitEventBuffer::size$") for x in walk(c)):
            full.append((bid, "T"))
    slot = [r for r in g.return_nodes()]
    ok = bool(ex) and bool(full) and not g.exists_path([g.entry_node], ex, avoid_edges=full) and \
        all(not g.exists_path([tnode(g, b)], slot, avoid_nodes=ex, avoid_edges=[(b, other(l))]) for (b, l) in full)
    ctx.ob("C03.R6f", "TransitEventBuffer::back:grows-iff-full", ok,
           "back() grows the ring exactly on the 'capacity == size()' outcome, before the slot is handed out (a slot is never the one "
           "the oldest unprocessed event still occupies)", fn=bk)
    f = facts.need(TB + "_expand", cfg)[0]
    inits = f.var_inits()
    ncap = [vid for vid, i in inits.items() if isnode(strip(i, casts=True)) and strip(i, casts=True)["k"] == "BinaryOperator" and
            ((strip(i, casts=True)["op"] == "*" and is_this_field(strip(i, casts=True)["lhs"], "_capacity") and const_val(strip(i, casts=True)["rhs"]) == 2) or
             (strip(i, casts=True)["op"] == "*" and is_this_field(strip(i, casts=True)["rhs"], "_capacity") and const_val(strip(i, casts=True)["lhs"]) == 2) or
             (strip(i, casts=True)["op"] == "<<" and is_this_field(strip(i, casts=True)["lhs"], "_capacity") and const_val(strip(i, casts=True)["rhs"]) == 1))]
    alloc = [c for c in f.calls(r"^std::make_unique<quill::(v\d+::)?detail::TransitEvent\s*\[\]") or f.calls(r"^std::make_unique<")]
    nsv = [vid for vid, i in inits.items() if isnode(i) and any(in_subtree(c, i) for c in alloc)]
    cap_asg = [n for n in f.walk() if n["k"] == "BinaryOperator" and n["op"] == "=" and is_this_field(n["lhs"], "_capacity")]
    st_asg = [c for c in f.calls(r"unique_ptr<.*>::operator=$") if is_this_field(strip(c["args"][0]), "_storage")]
    ok = len(ncap) == 1 and bool(alloc) and all(var_ref(c["args"][0]) == ncap[0] for c in alloc) and len(cap_asg) == 1 and var_ref(cap_asg[0]["rhs"]) == ncap[0] and \
        len(st_asg) == 1 and bool(nsv) and any(x["k"] == "DeclRefExpr" and x.get("did") == nsv[0] for x in walk(st_asg[0]["args"][1])) and \
        not f.g.exists_path([f.g.entry_node], [f.g.exit_node], avoid_nodes=npos(f, st_asg)) and not f.g.exists_path([f.g.entry_node], [f.g.exit_node], avoid_nodes=npos(f, cap_asg))
    ctx.ob("C03.R6g", "TransitEventBuffer::_expand:doubles-and-installs", ok,
           "the new ring has twice the capacity (stays a power of two, so 'capacity - 1' stays a mask), is allocated with that capacity, "
           "and both the storage and the capacity are replaced by the new ones on every path", fn=f)
    # R6i: every capacity the ring can have is a power of two, so 'capacity - 1' is a mask: the constructor rounds the requested
    # capacity up and keeps the *rounded* value as the one try_shrink returns to
    ctors = [x for x in facts.fns if x.config == cfg and x.cls == "quill::detail::TransitEventBuffer" and x.rec.get("ctor") and
             len(x.rec.get("params") or []) == 1 and not x.rec["params"][0]["ty"].endswith("&&") and "TransitEventBuffer" not in x.rec["params"][0]["ty"]]
    if not ctors:
        raise AnalysisBroken("TransitEventBuffer(size_t) constructor not found")
    c0 = ctors[0]
    ini = {i.get("member"): i.get("expr") for i in c0.rec.get("inits") or []}
    def rounded(e):
        return isnode(e) and any(is_call(x, r"(^|::)next_power_of_two(<.*>)?$") for x in walk(e))
    def is_field_or_rounded(e, fld):
        return rounded(e) or is_this_field(strip(e, casts=True), fld)
    mk = strip(ini.get("_mask"), casts=True)
    ok = rounded(ini.get("_initial_capacity")) and is_field_or_rounded(ini.get("_capacity"), "_initial_capacity") and \
        isnode(mk) and mk["k"] == "BinaryOperator" and mk["op"] == "-" and const_val(mk["rhs"]) == 1 and is_this_field(strip(mk["lhs"], casts=True), "_capacity")
    others = [x for x in facts.fns if x.config == cfg and x.cls == "quill::detail::TransitEventBuffer" and not x.rec.get("ctor") and x.base != "operator=" and
              any(n["k"] in ("BinaryOperator", "CompoundAssignOperator") and n.get("op", "").endswith("=") and n.get("op") not in ("==", "!=", "<=", ">=") and
                  is_this_field(n.get("lhs"), "_initial_capacity") for n in x.walk())]
    ctx.ob("C03.R6i", "TransitEventBuffer::TransitEventBuffer:capacities-are-powers-of-two", ok and not others,
           "the initial capacity is stored rounded up to a power of two (next_power_of_two), the capacity starts as that value and the mask "
           "as capacity - 1; nothing else writes the initial capacity — try_shrink returns to it and derives a mask from it", fn=c0)
    ts = facts.need(TB + "try_shrink", cfg)[0]
    g = ts.g
    sto = npos(ts, [c for c in ts.calls(r"unique_ptr<.*>::operator=$") if is_this_field(strip(c["args"][0]), "_storage")])
    req = []
    emp = [(b, t) for (b, t, c) in branches_on_call(ts, r"TransitEventBuffer::empty$")]
    for bid, b in g.blocks.items():
        c = g.term_cond(bid)
        if c is None:
            continue
        core, neg = core_and_neg(c)
        if is_this_field(strip(core, casts=True), "_shrink_requested"):
            req.append((bid, "F" if neg else "T"))
    big = []
    for bid, b in g.blocks.items():
        c = g.term_cond(bid)
        cs = cmp_sides_(c) if c is not None else None
        if cs and cs[0] == "<" and is_this_field(strip(cs[1], casts=True), "_initial_capacity") and is_this_field(strip(cs[2], casts=True), "_capacity"):
            big.append((bid, "T"))
    resets = {}
    for n in ts.walk():
        if n["k"] == "BinaryOperator" and n["op"] == "=" and is_this_field(n["lhs"]):
            resets[field_name(n["lhs"])] = n
    mk = strip(resets.get("_mask", {}).get("rhs"), casts=True) if "_mask" in resets else None
    vals_ok = "_capacity" in resets and is_this_field(strip(resets["_capacity"]["rhs"], casts=True), "_initial_capacity") and \
        isnode(mk) and mk["k"] == "BinaryOperator" and mk["op"] == "-" and const_val(mk["rhs"]) == 1 and is_this_field(mk["lhs"], "_capacity") and \
        const_val(resets.get("_reader_pos", {}).get("rhs")) == 0 and const_val(resets.get("_writer_pos", {}).get("rhs")) == 0 and \
        const_val(resets.get("_shrink_requested", {}).get("rhs")) == 0
    ok = bool(sto) and bool(req) and bool(emp) and bool(big) and vals_ok and not g.exists_path([g.entry_node], sto, avoid_edges=req) and \
        not g.exists_path([g.entry_node], sto, avoid_edges=emp) and not g.exists_path([g.entry_node], sto, avoid_edges=big) and \
        all(not g.exists_path(sto, [g.exit_node], avoid_nodes=g.positions(resets[k])) for k in ("_capacity", "_mask", "_reader_pos", "_writer_pos"))
    ctx.ob("C03.R6h", "TransitEventBuffer::try_shrink:only-when-empty", ok,
           "the ring is replaced by one of the initial capacity only when shrinking was requested, the ring is empty and it had grown; "
           "capacity, mask (capacity - 1) and both positions are reset with it and the request is cleared (no buffered event can be in "
           "the storage that is dropped)", fn=ts)


def r7(ctx, facts, cfg):
    roles, proots, croots = roles_mod.infer(facts, cfg)
    pat = r"(SPSCQueue(Impl<unsigned long>)?::(finish_read|commit_read|prepare_read)|TransitEventBuffer::(pop_front|push_back|back|front))$"
    n = 0
    for f in facts.fns:
        if f.config != cfg or f.rec.get("main"):
            continue
        cs = f.calls(pat)
        if not cs:
            continue
        n += 1
        r = roles.get(id(f), set())
        ctx.ob("C03.R7", "%s:consumer-only" % f.short.replace("quill::detail::", ""), "P" not in r,
               "%s consumes a frontend queue / transit buffer (%s) and is reachable from role(s) %s — backend only" %
               (f.short, sorted(set(short(c["callee"]).split("::")[-1] for c in cs)), sorted(r)), fn=f)
    ctx.floor("C03.R7", "functions that consume queues/transit buffers", n, 5)


def logger_keeps_what_it_is_given(ctx, facts, cfg):
    """R14: 'each sink of its logger' are the sinks the logger was created with: the LoggerBase constructor stores every one of its
    parameters in the member of the same name (initialiser list or body), none is dropped on the way"""
    ctors = [f for f in facts.fns if f.config == cfg and f.cls == "quill::detail::LoggerBase" and f.rec.get("ctor") and len(f.rec.get("params") or []) >= 4]
    if not ctors:
        raise AnalysisBroken("LoggerBase constructor not found")
    f = ctors[0]
    stored = {}
    for i in f.rec.get("inits") or []:
        if i.get("written") and isnode(i.get("expr")):
            for x in walk(i["expr"]):
                if x["k"] == "DeclRefExpr" and x.get("dk") == "ParmVar":
                    stored.setdefault(x["did"], set()).add(i.get("member"))
    for n in f.walk():
        sides = None
        if n["k"] == "BinaryOperator" and n["op"] == "=":
            sides = (n["lhs"], n["rhs"])
        elif n["k"] == "CXXOperatorCallExpr" and short(n.get("callee") or "").endswith("operator=") and len(n.get("args") or []) == 2:
            sides = (n["args"][0], n["args"][1])
        if sides and is_this_field(sides[0]):
            # on every path to the exit
            if not f.g.exists_path([f.g.entry_node], [f.g.exit_node], avoid_nodes=f.g.positions(n)):
                for x in walk(sides[1]):
                    if x["k"] == "DeclRefExpr" and x.get("dk") == "ParmVar":
                        stored.setdefault(x["did"], set()).add(strip(sides[0])["mname"])
    params = f.rec["params"]
    lost = [p["name"] for p in params if p["name"] not in (stored.get(p["did"]) or set())]
    ctx.ob("C03.R14", "LoggerBase::LoggerBase:keeps-every-parameter", not lost,
           "the logger's name, sinks, formatter options, clock source and user clock are each stored in the member of the same name on "
           "every path (not stored: %s)" % (lost or "none"), fn=f)


def transit_event_transfer(ctx, facts, cfg, rule):
    """exhaustive over the data members of TransitEvent: whatever moves or copies an event carries every member across (the
    per-thread buffer moves its events when it grows; the backtrace ring stores copies)"""
    crec = facts.cls("quill::detail::TransitEvent", cfg)
    if not crec:
        raise AnalysisBroken("TransitEvent class record not found")
    fields = [x["name"] for x in crec["fields"]]
    ctx.floor(rule + "t", "TransitEvent data members", len(fields), 7)
    te = [f for f in facts.fns if f.config == cfg and f.cls == "quill::detail::TransitEvent"]
    mctor = [f for f in te if f.rec.get("ctor") and len(f.rec.get("params") or []) == 1 and f.rec["params"][0]["ty"].endswith("&&")]
    massign = [f for f in te if f.base == "operator=" and len(f.rec.get("params") or []) == 1 and f.rec["params"][0]["ty"].endswith("&&")]
    cpy = [f for f in te if f.base == "copy_to"]
    if not mctor or not massign or not cpy:
        raise AnalysisBroken("TransitEvent move constructor / move assignment / copy_to not found")
    # move constructor: one initialiser per member, from the same member of the source
    f = mctor[0]
    src = f.rec["params"][0]["did"]
    got = {}
    for i in f.rec.get("inits") or []:
        e = i.get("expr")
        got[i.get("member")] = isnode(e) and any(x["k"] == "MemberExpr" and x.get("mname") == i.get("member") and var_ref(x.get("base")) == src for x in walk(e))
    missing = [m for m in fields if not got.get(m)]
    ctx.ob(rule + "t", "TransitEvent::TransitEvent(TransitEvent&&):every-member", not missing,
           "the move constructor initialises every data member from the same member of its source (missing: %s)" % missing, fn=f)
    # move assignment
    f = massign[0]
    src = f.rec["params"][0]["did"]
    got = set()
    for n in f.walk():
        sides = None
        if n["k"] == "BinaryOperator" and n["op"] == "=":
            sides = (n["lhs"], n["rhs"])
        elif n["k"] == "CXXOperatorCallExpr" and short(n.get("callee") or "").endswith("operator=") and len(n["args"]) == 2:
            sides = (n["args"][0], n["args"][1])
        if sides and is_this_field(sides[0]):
            m = strip(sides[0])["mname"]
            if any(x["k"] == "MemberExpr" and x.get("mname") == m and var_ref(x.get("base")) == src for x in walk(sides[1])):
                got.add(m)
    missing = [m for m in fields if m not in got]
    # ... on every path: only the self-assignment test may skip an assignment (a member taken over only when the source 'has one'
    # leaves the destination's old value in a reused slot)
    g = f.g
    self_edges = []
    for bid, b in g.blocks.items():
        c = g.term_cond(bid)
        nc = norm_cmp(c) if c is not None else None
        if nc and nc[0] in ("==", "!=") and any(x["k"] == "CXXThisExpr" for x in walk(c)) and \
                any(x["k"] == "UnaryOperator" and x.get("op") == "&" and var_ref(x.get("sub")) == src for x in walk(c)):
            self_edges.append((bid, "T" if nc[0] == "==" else "F"))
    cond_skipped = []
    for m in fields:
        pos = []
        for n in f.walk():
            tgt = n["lhs"] if n["k"] == "BinaryOperator" and n["op"] == "=" else \
                (n["args"][0] if n["k"] == "CXXOperatorCallExpr" and short(n.get("callee") or "").endswith("operator=") and len(n["args"]) == 2 else None)
            if tgt is not None and is_this_field(tgt, m):
                pos += g.positions(n)
        if pos and g.exists_path([g.entry_node], [g.exit_node], avoid_nodes=pos, avoid_edges=self_edges):
            cond_skipped.append(m)
    ctx.ob(rule + "t", "TransitEvent::operator=(TransitEvent&&):every-member", not missing and not cond_skipped,
           "move assignment — what TransitEventBuffer::_expand and the backtrace ring use to carry events into a slot that held another "
           "event — assigns every data member from the same member of its source, on every path except self-assignment (missing: %s, "
           "assigned only on some paths: %s)" % (missing, cond_skipped), fn=f)
    # copy_to
    f = cpy[0]
    dst = f.rec["params"][0]["did"]
    got = set()
    for n in f.walk():
        if n["k"] not in ("BinaryOperator", "CXXOperatorCallExpr", "CXXMemberCallExpr"):
            continue
        if n["k"] == "BinaryOperator" and n["op"] != "=":
            continue
        if n["k"] == "CXXMemberCallExpr" and not re.search(r"::(append|assign|operator=|insert|push_back|emplace_back)$", short(n.get("callee") or "")):
            continue        # reserve() / clear() / size() carry nothing across
        tgt = n["lhs"] if n["k"] == "BinaryOperator" else (n["args"][0] if n["k"] == "CXXOperatorCallExpr" and n.get("args") else call_obj(n))
        rest = [n["rhs"]] if n["k"] == "BinaryOperator" else (n["args"][1:] if n["k"] == "CXXOperatorCallExpr" else n.get("args") or [])
        tm = [x.get("mname") for x in walk(tgt) if x["k"] == "MemberExpr" and x.get("dk") == "Field" and var_ref(x.get("base")) == dst] if isnode(tgt) else []
        for m in tm:
            if any(is_this_field(x, m) for r_ in rest for x in walk(r_)):
                got.add(m)
    missing = [m for m in fields if m not in got]
    # the named args are copied exactly when this event has some: the copy sits on the positive outcome of the test of this->named_args
    # and every path through that outcome makes it (the other outcome has nothing to copy: the destination is fresh, see below)
    g_ = f.g
    na_copy = []
    for n in f.walk():
        tgt = n["lhs"] if n["k"] == "BinaryOperator" and n["op"] == "=" else \
            (n["args"][0] if n["k"] == "CXXOperatorCallExpr" and short(n.get("callee") or "").endswith("operator=") and len(n.get("args") or []) == 2 else None)
        if tgt is not None and any(x["k"] == "MemberExpr" and x.get("mname") == "named_args" and var_ref(x.get("base")) == dst for x in walk(tgt)):
            na_copy += g_.positions(n)
    has_e = []
    for bid, b in g_.blocks.items():
        c = g_.term_cond(bid)
        if c is None:
            continue
        core, neg = core_and_neg(c)
        if any(is_this_field(x, "named_args") for x in walk(core)) and not any(var_ref(x.get("base")) == dst for x in walk(core) if x["k"] == "MemberExpr"):
            nc_ = norm_cmp(c)
            if nc_ and nc_[0] in ("==", "!="):
                has_e.append((bid, "T" if nc_[0] == "!=" else "F"))     # compared with nullptr
            else:
                has_e.append((bid, "F" if neg else "T"))                 # truth test
    na_ok = bool(na_copy) and (not has_e or (not g_.exists_path([g_.entry_node], na_copy, avoid_edges=has_e) and
                                              all(not g_.exists_path([y for (y, l2) in g_.succ.get(tnode(g_, b), ()) if l2 == l], [g_.exit_node], avoid_nodes=na_copy) for (b, l) in has_e)))
    ctx.ob(rule + "t", "TransitEvent::copy_to:every-member", not missing and na_ok,
           "copy_to — what the backtrace ring stores — writes every data member of the destination from the same member of this event "
           "(the text by append / assign, not by reserve) (missing: %s); the named args are copied exactly on the 'this event has some' "
           "outcome: %s" % (missing, na_ok), fn=f)
    # copy_to appends to the destination's message buffer and leaves the destination's named args alone when this event has none:
    # it is only right for a destination that is freshly constructed — every caller hands it a local that was default-constructed and
    # not touched in between
    n_calls = 0
    for cf in [x for x in facts.fns if x.config == cfg]:
        for c in cf.calls(r"TransitEvent::copy_to$"):
            n_calls += 1
            d = var_ref(strip(c["args"][0], casts=True)) if c.get("args") else None
            inits = cf.var_inits()
            decl_ok = d is not None and d in inits and (inits[d] is None or (isnode(strip(inits[d], casts=True)) and
                      strip(inits[d], casts=True)["k"] in ("CXXConstructExpr", "CXXTemporaryObjectExpr", "InitListExpr") and not (strip(inits[d], casts=True).get("args") or [])))
            uses = [x for x in cf.walk() if x["k"] == "DeclRefExpr" and x.get("did") == d and not in_subtree(x, c)] if d is not None else []
            cpos_ = cf.g.positions(c)
            early = [u for u in uses if any(cf.g.exists_path([q], cpos_) for q in cf.g.positions(u))]
            ctx.ob(rule + "t", "%s:copy_to-into-fresh-event" % cf.short.split("::")[-1], decl_ok and not early,
                   "the destination of copy_to is a local TransitEvent that is default-constructed and not used before the copy "
                   "(declared fresh: %s, earlier uses: %d)" % (decl_ok, len(early)), fn=cf)
    if not n_calls:
        raise AnalysisBroken("no call of TransitEvent::copy_to found")
    ex = facts.need("quill::detail::TransitEventBuffer::_expand", cfg)[0]
    mv = [c for c in ex.calls(r"TransitEvent::operator=$")]
    ctx.ob(rule + "t", "TransitEventBuffer::_expand:moves-events", bool(mv),
           "growing the per-thread buffer carries the buffered events over with TransitEvent's move assignment", fn=ex)


def _eval_bool(e, value_of):
    """evaluate a boolean combination of ==/!= comparisons against enumerators; value_of(node) -> enumerator name or None"""
    e = strip(e, casts=True)
    while isnode(e) and e["k"] == "ParenExpr":
        e = strip(e.get("sub") or (e.get("c") or [None])[0], casts=True)
    if not isnode(e):
        return None
    if e["k"] == "BinaryOperator" and e["op"] in ("||", "&&"):
        a, b = _eval_bool(e["lhs"], value_of), _eval_bool(e["rhs"], value_of)
        if a is None or b is None:
            return None
        return (a or b) if e["op"] == "||" else (a and b)
    if e["k"] == "UnaryOperator" and e["op"] == "!":
        a = _eval_bool(e["sub"], value_of)
        return None if a is None else (not a)
    if e["k"] == "BinaryOperator" and e["op"] in ("==", "!="):
        a, b = value_of(e["lhs"]), value_of(e["rhs"])
        if a is None or b is None:
            return None
        return (a == b) if e["op"] == "==" else (a != b)
    if e["k"] == "CXXBoolLiteralExpr":
        return bool(e.get("val"))
    return None


def queue_kind_tables(ctx, facts, cfg):
    """exhaustive over QueueType: the four queue-kind predicates of ThreadContext as truth tables, and the arm of the union that the
    constructor, the destructor and get_spsc_queue<Q> touch"""
    en = facts.enum("quill::QueueType", cfg)
    if not en:
        raise AnalysisBroken("quill::QueueType not found")
    names = [n for (n, _v) in en["enumerators"]]
    want = {"has_unbounded_queue_type": lambda q: q.startswith("Unbounded"), "has_bounded_queue_type": lambda q: q.startswith("Bounded"),
            "has_dropping_queue": lambda q: q.endswith("Dropping"), "has_blocking_queue": lambda q: q.endswith("Blocking")}
    if not all(any(n.startswith(p) for p in ("Unbounded", "Bounded")) and any(n.endswith(sf) for sf in ("Dropping", "Blocking")) for n in names):
        raise AnalysisBroken("QueueType enumerators changed: %s — the queue-kind table has to be re-confirmed" % names)
    TC = "quill::detail::ThreadContext::"
    for pred, w in want.items():
        f = facts.need(TC + pred, cfg)[0]
        rets = [f.g.node_ast(r).get("val") for r in f.g.return_nodes()]
        bad = []
        for q in names:
            def value_of(n, q=q):
                n = strip(n, casts=True)
                if is_this_field(n, "_queue_type"):
                    return q
                if isnode(n) and n["k"] == "DeclRefExpr" and n.get("dk") == "EnumConstant" and "QueueType::" in n.get("name", ""):
                    return n["name"].split("::")[-1]
                return None
            vals = [_eval_bool(r, value_of) for r in rets]
            if len(vals) != 1 or vals[0] is None:
                raise AnalysisBroken("ThreadContext::%s: return expression has a shape no accepted idiom covers" % pred)
            if vals[0] != w(q):
                bad.append("%s -> %s" % (q, vals[0]))
        ctx.ob("C03.R7v", "ThreadContext::%s:truth-table" % pred, not bad,
               "exhaustive over QueueType %s: the predicate is true exactly for the kinds its name says (%s)" % (names, "; ".join(bad) or "table as expected"), fn=f)
    # constructor / destructor: the arm constructed / destroyed is the arm of the kind
    for f in [x for x in facts.fns if x.config == cfg and x.cls == "quill::detail::ThreadContext" and (x.rec.get("ctor") or x.rec.get("dtor")) and
              any(n["k"] == "MemberExpr" and n.get("mname") in ("unbounded_spsc_queue", "bounded_spsc_queue") for n in x.walk())]:
        g = f.g
        ub = [(b, t) for (b, t, c) in branches_on_call(f, r"ThreadContext::has_unbounded_queue_type$")]
        bb = [(b, t) for (b, t, c) in branches_on_call(f, r"ThreadContext::has_bounded_queue_type$")]
        pu = sorted(set(p_ for n in f.walk() if n["k"] == "MemberExpr" and n.get("mname") == "unbounded_spsc_queue" for p_ in (g.positions(n) or [])))
        pbq = sorted(set(p_ for n in f.walk() if n["k"] == "MemberExpr" and n.get("mname") == "bounded_spsc_queue" for p_ in (g.positions(n) or [])))
        ok = bool(pu) and bool(pbq) and bool(ub) and not g.exists_path([g.entry_node], pu, avoid_edges=ub) and \
            ((bool(bb) and not g.exists_path([g.entry_node], pbq, avoid_edges=bb)) or
             (not bb and not g.exists_path([g.entry_node], pbq, avoid_edges=[(b, other(t)) for (b, t) in ub]))) and \
            all(g.exists_path([y for (y, lab) in g.succ.get(tnode(g, b), ()) if lab == t], pu) for (b, t) in ub)
        ctx.ob("C03.R7w", "ThreadContext::%s:union-arm" % ("ThreadContext" if f.rec.get("ctor") else "~ThreadContext"), ok,
               "the %s the unbounded queue exactly on 'has an unbounded queue' and the bounded one exactly on 'has a bounded queue'" %
               ("constructor placement-constructs" if f.rec.get("ctor") else "destructor destroys"), fn=f)
    # get_spsc_queue<Q>: the arm returned matches Q in every instantiation
    n = 0
    for f in facts.fns:
        if f.config != cfg or f.short != "quill::detail::ThreadContext::get_spsc_queue":
            continue
        targs = f.rec.get("targs") or []
        q = (targs[0] if targs else "").split("::")[-1]
        arms = sorted(set(x.get("mname") for x in f.walk() if x["k"] == "MemberExpr" and x.get("mname") in ("unbounded_spsc_queue", "bounded_spsc_queue")))
        if not q:
            continue
        n += 1
        ctx.ob("C03.R7w", "ThreadContext::get_spsc_queue<%s>%s:union-arm" % (q, " const" if "const" in (f.rec.get("sig") or "")[-12:] else ""),
               arms == (["unbounded_spsc_queue"] if q.startswith("Unbounded") else ["bounded_spsc_queue"]),
               "get_spsc_queue<%s> returns the %s arm (found %s)" % (q, "unbounded" if q.startswith("Unbounded") else "bounded", arms), fn=f)
    ctx.floor("C03.R7w", "get_spsc_queue instantiations", n, 4)


def union_discriminant(ctx, facts, cfg):
    """every access to one arm of the queue union lies on the matching outcome of the context's queue-type test"""
    n = 0
    for f in facts.fns:
        if f.config != cfg or not (f.short.startswith(BW) or (f.rec.get("parent") or "").startswith("quill::detail::BackendWorker::")):
            continue
        acc = {"unbounded_spsc_queue": [], "bounded_spsc_queue": []}
        for x in f.walk():
            if x["k"] == "MemberExpr" and x.get("mname") in acc and any(is_call(y, r"ThreadContext::get_spsc_queue_union$") for y in walk(x.get("base"))):
                acc[x["mname"]].extend(f.g.positions(x) or [])
        if not acc["unbounded_spsc_queue"] and not acc["bounded_spsc_queue"]:
            continue
        g = f.g
        ub = [(b, t) for (b, t, c) in branches_on_call(f, r"ThreadContext::has_unbounded_queue_type$")]
        bb = [(b, t) for (b, t, c) in branches_on_call(f, r"ThreadContext::has_bounded_queue_type$")]
        n += 1
        ok_u = not acc["unbounded_spsc_queue"] or (bool(ub) and not g.exists_path([g.entry_node], acc["unbounded_spsc_queue"], avoid_edges=ub))
        # the bounded arm: on 'is bounded', or on 'is not unbounded' (two queue kinds)
        # (when the function tests 'has a bounded queue' that test decides; otherwise 'not unbounded' does)
        ok_b = not acc["bounded_spsc_queue"] or \
            (bool(bb) and not g.exists_path([g.entry_node], acc["bounded_spsc_queue"], avoid_edges=bb)) or \
            (not bb and bool(ub) and not g.exists_path([g.entry_node], acc["bounded_spsc_queue"], avoid_edges=[(b, other(t)) for (b, t) in ub]))
        ctx.ob("C03.R7u", "%s:queue-union-arm" % short(f.name).replace("quill::detail::", "")[:110], ok_u and ok_b,
               "the unbounded arm of the thread context's queue union is touched only on the 'has an unbounded queue' outcome and the "
               "bounded arm only on 'has a bounded queue' / 'not unbounded' (unbounded ok: %s, bounded ok: %s)" % (ok_u, ok_b), fn=f)
    ctx.floor("C03.R7u", "backend functions that touch the queue union", n, 4)


def buffered_iff_true(ctx, facts, cfg):
    """the decoder's verdict is what the read loop consumes bytes on: true exactly when the event was buffered"""
    f = facts.need(BW + "_populate_transit_event_from_frontend_queue", cfg)[0]
    g = f.g
    pb = npos(f, f.calls(r"TransitEventBuffer::push_back$"))
    trues, falses = returns_bool(f, True), returns_bool(f, False)
    if not pb or not trues or len(trues) + len(falses) != len(g.return_nodes()):
        raise AnalysisBroken("_populate_transit_event_from_frontend_queue: push_back / literal returns not found")
    cnt = g.count_on_paths([g.entry_node], trues + falses, pb)
    ok = all(cnt[t] == (1, 1) for t in trues) and all(cnt[x] == (0, 0) for x in falses)
    ctx.ob("C03.R1p", "_populate_transit_event_from_frontend_queue:true-iff-buffered", ok,
           "the function returns true on exactly the paths that buffered one event (push_back once) and false on exactly those that "
           "buffered none: the caller consumes the record's bytes on 'true' and leaves them on 'false', so 'true' without an event "
           "loses a statement and 'false' with one delivers it twice", fn=f)


def memberwise_move(ctx, facts, cfg, rule, cls, site, floor_fields):
    """exhaustive over the data members of `cls`: the move constructor initialises, and the move assignment assigns (on every path but
    self-assignment), every member from the same member of the source; a member of the source that is reset afterwards is reset to the
    same value by both"""
    crec = facts.cls(cls, cfg)
    if not crec:
        raise AnalysisBroken("%s class record not found" % cls)
    fields = [x["name"] for x in crec["fields"]]
    ctx.floor(rule, "%s data members" % site, len(fields), floor_fields)
    fs = [f for f in facts.fns if f.config == cfg and f.cls == cls]
    mctor = [f for f in fs if f.rec.get("ctor") and len(f.rec.get("params") or []) == 1 and f.rec["params"][0]["ty"].endswith("&&")]
    massign = [f for f in fs if f.base == "operator=" and len(f.rec.get("params") or []) == 1 and f.rec["params"][0]["ty"].endswith("&&")]
    if not mctor or not massign:
        raise AnalysisBroken("%s move constructor / move assignment not found" % site)

    def resets(f, src):
        out = {}
        for n in f.walk():
            if n["k"] == "BinaryOperator" and n["op"] == "=" and isnode(strip(n["lhs"])) and strip(n["lhs"])["k"] == "MemberExpr" and \
                    var_ref(strip(n["lhs"]).get("base")) == src and const_val(n["rhs"]) is not None:
                out[strip(n["lhs"])["mname"]] = const_val(n["rhs"])
        return out
    f = mctor[0]
    src = f.rec["params"][0]["did"]
    got = {}
    for i in f.rec.get("inits") or []:
        e = i.get("expr")
        got[i.get("member")] = isnode(e) and any(x["k"] == "MemberExpr" and x.get("mname") == i.get("member") and var_ref(x.get("base")) == src for x in walk(e))
    missing = [m for m in fields if not got.get(m)]
    r_ctor = resets(f, src)
    ctx.ob(rule, "%s::%s(&&):every-member" % (site, site), not missing,
           "the move constructor initialises every data member from the same member of its source (missing: %s)" % missing, fn=f)
    f2 = massign[0]
    g = f2.g
    src2 = f2.rec["params"][0]["did"]
    self_edges = []
    for bid, b in g.blocks.items():
        c = g.term_cond(bid)
        nc = norm_cmp(c) if c is not None else None
        if nc and nc[0] in ("==", "!=") and any(x["k"] == "CXXThisExpr" for x in walk(c)) and \
                any(x["k"] == "UnaryOperator" and x.get("op") == "&" and var_ref(x.get("sub")) == src2 for x in walk(c)):
            self_edges.append((bid, "T" if nc[0] == "==" else "F"))
    miss2, cond2 = [], []
    for m in fields:
        pos = []
        for n in f2.walk():
            tgt, rhs = (n["lhs"], n["rhs"]) if n["k"] == "BinaryOperator" and n["op"] == "=" else \
                ((n["args"][0], n["args"][1]) if n["k"] == "CXXOperatorCallExpr" and short(n.get("callee") or "").endswith("operator=") and len(n["args"]) == 2 else (None, None))
            if tgt is not None and is_this_field(tgt, m) and any(x["k"] == "MemberExpr" and x.get("mname") == m and var_ref(x.get("base")) == src2 for x in walk(rhs)):
                pos += g.positions(n)
        if not pos:
            miss2.append(m)
        elif g.exists_path([g.entry_node], [g.exit_node], avoid_nodes=pos, avoid_edges=self_edges):
            cond2.append(m)
    r_asg = resets(f2, src2)
    ctx.ob(rule, "%s::operator=(&&):every-member" % site, not miss2 and not cond2 and bool(self_edges),
           "move assignment assigns every data member from the same member of its source on every path except self-assignment (missing: %s, "
           "only on some paths: %s)" % (miss2, cond2), fn=f2)
    ctx.ob(rule, "%s:moved-from-state" % site, r_ctor == r_asg and len(r_ctor) >= 1,
           "both leave the source in the same state (reset by the constructor: %s, by the assignment: %s)" % (r_ctor, r_asg), fn=f2)
    return r_ctor


def console_sink_forwards(ctx, facts, cfg):
    """R11: the console sink adds colour codes around a statement, it does not decide whether the statement is written: on every path
    ConsoleSink::write_log hands the statement to StreamSink::write_log exactly once, with its own parameters in their order."""
    fs = facts.fn("quill::ConsoleSink::write_log", cfg)
    if not fs:
        raise AnalysisBroken("ConsoleSink::write_log not found")
    f = fs[0]
    g = f.g
    calls = f.calls(r"^quill::StreamSink::write_log$")
    pos = npos(f, calls)
    cnt = g.count_on_paths([g.entry_node], [g.exit_node], pos)
    params = [p["did"] for p in f.rec["params"]]
    same = bool(calls) and all(len(c["args"]) == len(params) and all(var_ref(strip(a, casts=True)) == params[i] or
                                                                     any(var_ref(x) == params[i] for x in walk(a)) for i, a in enumerate(c["args"])) for c in calls)
    ctx.ob("C03.R11", "ConsoleSink::write_log:forwards-once", cnt[g.exit_node] == (1, 1) and same,
           "StreamSink::write_log is called exactly once on every path %s, each time with the sink's own parameters in order (%s)" % (cnt[g.exit_node], same), fn=f)
