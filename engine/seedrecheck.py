#!/usr/bin/env python3
"""seedrecheck — run the *current* checks against every stored seeded change (seeded/<id>/patch.diff) on a scratch copy of
/repo/include and record the result in seeded/<id>/meta.json:
  check_result          what reports the change now (own property's check first, then any other check),
  first_run_result      what the checks reported the first time the change was run (kept once, never overwritten),
  expect_on_current_tree  'silent' for a change that is benign on the repaired tree (kept by hand; then silence is required);
                          'analysis-broken' for a change the own check answers with exit 2 (kept by hand, reason in history).
usage: seedrecheck.py [--only C13] [--jobs 8] [--own-only]
Exit 1 when a change that should be reported is not reported by the check of its own property."""
import argparse, glob, json, os, shutil, subprocess, sys, tempfile
from concurrent.futures import ThreadPoolExecutor
VERIF = os.path.dirname(os.path.dirname(os.path.abspath(__file__)))
ALL = ["C%02d" % i for i in range(1, 21)]


def run_one(d, own_only):
    meta_p = os.path.join(d, "meta.json")
    meta = json.load(open(meta_p))
    sid = os.path.basename(d)
    prop = meta["property"]
    tmp = tempfile.mkdtemp(prefix="qv-")
    try:
        shutil.copytree("/repo/include", os.path.join(tmp, "include"))
        r = subprocess.run(["patch", "-p1", "-s", "-d", tmp, "-i", os.path.join(d, "patch.diff")], capture_output=True, text=True)
        if r.returncode != 0:
            return sid, None, "PATCH FAILED: " + (r.stdout + r.stderr)[-200:]
        env = dict(os.environ, QV_SRC=os.path.join(tmp, "include"), QV_OUT=os.path.join(tmp, "out"))
        hits = {}
        broken = []
        for pid in ([prop] if own_only else [prop] + [x for x in ALL if x != prop]):
            r = subprocess.run([sys.executable, os.path.join(VERIF, "engine", "qcheck.py"), pid, "--tier", "quick"],
                               capture_output=True, text=True, env=env, cwd=VERIF)
            if r.returncode == 2:
                broken.append(pid)
            rules = sorted(set(l.split()[0] for l in r.stdout.splitlines() if l.startswith("  C") and " violated at " in l))
            if r.returncode == 1:
                hits[pid] = rules
        return sid, (hits, broken), None
    finally:
        shutil.rmtree(tmp, ignore_errors=True)


def main():
    ap = argparse.ArgumentParser()
    ap.add_argument("--only", default=""); ap.add_argument("--jobs", type=int, default=8); ap.add_argument("--own-only", action="store_true")
    a = ap.parse_args()
    dirs = [d for d in sorted(glob.glob(os.path.join(VERIF, "seeded", "*"))) if os.path.exists(os.path.join(d, "patch.diff")) and a.only in d]
    bad = 0
    with ThreadPoolExecutor(a.jobs) as ex:
        for sid, res, err in ex.map(lambda d: run_one(d, a.own_only), dirs):
            d = os.path.join(VERIF, "seeded", sid)
            meta = json.load(open(os.path.join(d, "meta.json")))
            if err:
                print("%-8s %s" % (sid, err)); bad += 1; continue
            hits, broken = res
            prop = meta["property"]
            silent_ok = meta.get("expect_on_current_tree") == "silent"
            own = hits.get(prop, [])
            others = {k: v for k, v in hits.items() if k != prop}
            if meta.get("expect_on_current_tree") == "analysis-broken":
                ok = prop in broken and not own
                now = "not decided: the %s check ends ANALYSIS-BROKEN (exit 2, never a pass) — the change swaps an anchored construct for one the analysis does not decide" % prop
            elif silent_ok:
                ok = not hits
                now = "silent on the repaired tree (as expected: %s)" % meta.get("history", "")
            else:
                ok = bool(own)
                now = ("caught by the %s check: %s" % (prop, "; ".join(own)) if own else "NOT caught by the %s check" % prop) + \
                    ("; also by " + ", ".join("%s (%s)" % (k, "; ".join(v)) for k, v in sorted(others.items())) if others else "") + \
                    ("; analysis broken (exit 2) in " + ",".join(broken) if broken else "")
            if not a.own_only:
                if "first_run_result" not in meta:
                    meta["first_run_result"] = meta.get("check_result", "")
                meta["check_result"] = now
                meta["caught_by_own_check"] = own
                meta["caught_by_other_checks"] = others
                json.dump(meta, open(os.path.join(d, "meta.json"), "w"), indent=1)
            print("%-8s %-4s %s" % (sid, "ok" if ok else "MISS", now[:230]))
            bad += 0 if ok else 1
    print("%d seeded change(s), %d not reported as expected" % (len(dirs), bad))
    return 1 if bad else 0


if __name__ == "__main__":
    sys.exit(main())
