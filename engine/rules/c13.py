"""C13 — rendered time: table, width and rejection clauses only (DESIGN §4 C13)."""
import math
from qlib import (AnalysisBroken, strip, isnode, walk, is_call, norm_cmp, var_ref, is_null, const_val, short, call_obj,
                  expr_key, field_name, is_this_field)
from rules.common import (core_and_neg, tnode, other, cpos, npos, branches_on_call, in_subtree, need_some, straight_after)

EXPLANATION = ("Timestamp formatter tables. R1 (fractional seconds, exhaustive over the AdditionalSpecifier enumerators): the "
               "specifier's name is '%' + enumerator name and specifier_length characters long, the constructor selects enumerator e "
               "exactly for specifier_name[e], the zero field appended for e has width w_e and the nanoseconds are divided by d_e with "
               "w_e + log10(d_e) = 9; the nanosecond remainder is ns - secs*1e9 with secs = ns/1e9; digits are copied right-aligned "
               "(size() - digits). R2 (hour/minute/second patching, exhaustive over the 7 modifiers): the modifier list used for "
               "splitting, the if-chain that records patch positions and the switch that patches agree on the same 7 letters; the "
               "recorded position (size() - w) matches the width of the fmt spec used to patch ({:02}/{:2} -> 2, {:10} -> 10); each "
               "case formats the confirmed quantity (H,k: hours; M: minutes; S: seconds; I,l: 12-hour form; s: the cached epoch); every "
               "modifier is two characters long (the splitter skips 2). R3: %X ends in a throw; a second distinct fractional "
               "specifier ends in a throw; a repeated one is rejected as well (the remainder after the first occurrence is searched) "
               "— the rule that found the pinned tree's defect.")
NOT_DECIDED = ("Equality with strftime for every instant, zone and sequence (DST, noon/midnight and quarter-hour recalculation, "
               "backwards timestamps): value properties, left to dynamic techniques.")
EXHAUSTIVE = "the AdditionalSpecifier and format_type enumerators"
ASSUMPTIONS = []
TF = "quill::detail::TimestampFormatter"
SF = "quill::detail::StringFromTime"


def run(ctx):
    facts = ctx.facts("core.cpp", "A")
    r1(ctx, facts)
    r2(ctx, facts)
    r3(ctx, facts)


def enum_const(n, prefix):
    for x in walk(n):
        if x["k"] == "DeclRefExpr" and x.get("dk") == "EnumConstant" and (prefix in x["name"] or prefix in x.get("ty", "")):
            return x["name"].split("::")[-1], x.get("cval")
    return None, None


def r1(ctx, facts):
    en = facts.enum(TF + "::AdditionalSpecifier", "A")
    sn = facts.var(TF + "::specifier_name", "A")
    sl = facts.var(TF + "::specifier_length", "A")
    if not en or not sn or not sl:
        raise AnalysisBroken("TimestampFormatter::AdditionalSpecifier / specifier_name / specifier_length not found")
    names = [x["str"] for x in walk(sn["init"]) if x["k"] == "StringLiteral"]
    slen = const_val(sl["init"])
    if slen is None:
        for x in walk(sl["init"]):
            if x["k"] == "IntegerLiteral":
                slen = x["val"]
    specs = [(n, v) for (n, v) in en["enumerators"] if n != "None"]
    ctx.floor("C13.R1", "fractional specifiers", len(specs), 3)
    ctx.ob("C13.R1a", "specifier_name:size", len(names) == len(en["enumerators"]),
           "one name per AdditionalSpecifier enumerator (%d names, %d enumerators)" % (len(names), len(en["enumerators"])), loc=sn["loc"])
    for (n, v) in specs:
        nm = names[v] if v < len(names) else None
        ctx.ob("C13.R1b", "specifier_name[%s]" % n, nm == "%" + n and len(nm or "") == slen,
               "specifier %s is spelled '%s' and is specifier_length (=%s) characters long" % (n, nm, slen), loc=sn["loc"])
    ctor = [f for f in facts.fns if f.config == "A" and f.cls == TF and f.rec.get("ctor") and f.rec.get("inits")]
    if not ctor:
        raise AnalysisBroken("TimestampFormatter constructor not found")
    c = ctor[0]
    g = c.g
    # constructor: find(specifier_name[e]) found -> _additional_format_specifier = e
    seen = {}
    inits = c.var_inits()
    for bid, b in g.blocks.items():
        cond = g.term_cond(bid)
        if cond is None:
            continue
        nc = norm_cmp(cond)
        if not (nc and nc[0] in ("==", "!=") and any(x["k"] == "DeclRefExpr" and x.get("name", "").endswith("npos") for x in walk(cond))):
            continue
        vs = [x.get("did") for x in walk(cond) if x["k"] == "DeclRefExpr" and x.get("dk") == "Var" and x.get("did") in inits]
        for v in vs:
            i = inits[v]
            finds = [x for x in walk(i) if is_call(x, r"basic_string<.*>::find$") and is_this_field(call_obj(x), "_time_format")]
            if not finds:
                continue
            idx = None
            for x in walk(finds[0]["args"][0]):
                if is_call(x, r"std::array<.*>::operator\[\]$") and len(x["args"]) > 1:
                    idx = const_val(x["args"][1])
            found_lab = "T" if nc[0] == "!=" else "F"
            body = g.reach([tnode(g, bid)], avoid_edges=[(bid, other(found_lab))])
            asg = [n for n in c.walk() if n["k"] == "BinaryOperator" and n["op"] == "=" and is_this_field(n["lhs"], "_additional_format_specifier")]
            mine = []
            for a in asg:
                ps = g.positions(a)
                if ps and all(p in body for p in ps) and not g.exists_path([g.entry_node], ps, avoid_edges=[(bid, found_lab)]):
                    mine.append(enum_const(a["rhs"], "AdditionalSpecifier")[1])
            seen[idx] = mine
    for (n, v) in specs:
        ctx.ob("C13.R1c", "TimestampFormatter::ctor:selects-%s" % n, seen.get(v) == [v],
               "finding specifier_name[%d] in the pattern selects enumerator %s (=%d): %s" % (v, n, v, seen.get(v)), fn=c)
    # format_timestamp: per specifier zero width and divisor
    f = facts.need(TF + "::format_timestamp", "A")[0]
    fg = f.g
    finits = f.var_inits()
    fdecls = f.var_decls()
    per = {}
    for bid, b in fg.blocks.items():
        cond = fg.term_cond(bid)
        if cond is None:
            continue
        nc = norm_cmp(cond)
        if not (nc and nc[0] == "==" and any(is_this_field(x, "_additional_format_specifier") for x in walk(cond))):
            continue
        ename, ev = enum_const(cond, "AdditionalSpecifier")
        after = [fg.node_ast(p) for p in straight_after(fg, bid, "T")]
        width, div, wf = None, None, False
        for n in after:
            if is_call(n, r"::append\b") and is_this_field(call_obj(n), "_formatted_date"):
                v = var_ref(n["args"][0])
                src = fdecls.get(v, {}).get("init") if v is not None else n["args"][0]
                lits = [x for x in walk(src) if x["k"] == "StringLiteral"] if isnode(src) else []
                if lits:
                    width = lits[0]["len"] if set(lits[0]["str"]) <= {"0"} else -1
            if is_call(n, r"::_write_fractional_seconds$"):
                wf = True
                v = var_ref(n["args"][0])
                e = strip(finits.get(v), casts=True) if v in finits else None
                if isnode(e) and e["k"] == "BinaryOperator" and e["op"] == "/":
                    div = const_val(e["rhs"])
                    base = var_ref(e["lhs"])
                else:
                    div = 1
                    base = v
                per.setdefault("base", set()).add(base)
        per[ev] = (ename, width, div, wf)
    for (n, v) in specs:
        ename, width, div, wf = per.get(v, (None, None, None, False))
        ok = wf and width is not None and width > 0 and div is not None and div > 0 and \
            abs(math.log10(div) - round(math.log10(div))) < 1e-9 and width + round(math.log10(div)) == 9
        ctx.ob("C13.R1d", "format_timestamp:%s:width-divisor" % n, ok,
               "for %s a zero field of width %s is appended and the nanoseconds are divided by %s: width + log10(divisor) must be 9" % (n, width, div), fn=f)
    bases = per.get("base", set())
    ok = len(bases) == 1 and None not in bases
    if ok:
        e = strip(finits.get(list(bases)[0]), casts=True)
        ok = isnode(e) and e["k"] == "BinaryOperator" and e["op"] == "-"
        if ok:
            ns = var_ref(e["lhs"])
            m = strip(e["rhs"], casts=True)
            ok = isnode(m) and m["k"] == "BinaryOperator" and m["op"] == "*" and 1000000000 in (const_val(m["lhs"]), const_val(m["rhs"]))
            secs = var_ref(m["lhs"]) if const_val(m["rhs"]) == 1000000000 else var_ref(m["rhs"])
            se = strip(finits.get(secs), casts=True) if secs in finits else None
            ok = ok and isnode(se) and se["k"] == "BinaryOperator" and se["op"] == "/" and var_ref(se["lhs"]) == ns and const_val(se["rhs"]) == 1000000000
    ctx.ob("C13.R1e", "format_timestamp:nanosecond-remainder", ok,
           "the fraction is ns - (ns / 1e9) * 1e9 of the same timestamp whose seconds are handed to strftime", fn=f)
    # R1g: the reused date buffer is cleared before anything is appended for this timestamp
    g_ = f.g
    clr = npos(f, [c for c in f.calls(r"::clear$") if is_this_field(call_obj(c), "_formatted_date")])
    app = npos(f, [c for c in f.calls(r"::append\b") if is_this_field(call_obj(c), "_formatted_date")])
    ctx.ob("C13.R1g", "format_timestamp:buffer-cleared-first", bool(clr) and bool(app) and all(g_.dominates(clr, p) for p in app),
           "the cached output buffer is cleared on every path before the parts of this timestamp are appended (no stale text)", fn=f)
    w = facts.need(TF + "::_write_fractional_seconds", "A")[0]
    mc = w.calls(r"^(std::)?memcpy$")
    ok = False
    if mc:
        d = mc[0]["args"][0]
        idx = [x for x in walk(d) if is_call(x, r"operator\[\]")]
        if idx:
            e = strip(idx[0]["args"][1], casts=True)
            ok = isnode(e) and e["k"] == "BinaryOperator" and e["op"] == "-" and \
                any(is_call(x, r"::size$") and is_this_field(call_obj(x), "_formatted_date") for x in walk(e["lhs"])) and \
                any(is_call(x, r"format_int::size$") for x in walk(e["rhs"])) and \
                any(is_call(x, r"format_int::size$") for x in walk(mc[0]["args"][2])) and any(is_call(x, r"format_int::data$") for x in walk(mc[0]["args"][1]))
    ctx.ob("C13.R1f", "_write_fractional_seconds:right-aligned", ok,
           "the digits overwrite the tail of the zero field: destination = size() - number of digits, length = number of digits", fn=w)


def r2(ctx, facts):
    en = facts.enum(SF + "::format_type", "A")
    if not en:
        raise AnalysisBroken("StringFromTime::format_type not found")
    letters = [n for (n, v) in en["enumerators"]]
    sp = facts.need(SF + "::_split_timestamp_format_once", "A")[0]
    mods = []
    for d in sp.var_decls().values():
        if d.get("name") == "modifiers" or "array<std::" in d.get("ty", ""):
            if isnode(d.get("init")):
                mods = [x["str"] for x in walk(d["init"]) if x["k"] == "StringLiteral"]
                if mods:
                    break
    ctx.ob("C13.R2a", "modifiers:same-set", sorted(mods) == sorted("%" + l for l in letters) and all(len(m) == 2 for m in mods),
           "the splitter's modifier list %s is exactly '%%' + each format_type enumerator %s, two characters each (the splitter skips 2)" % (mods, letters), fn=sp)
    skip = [n for n in sp.walk() if n["k"] == "BinaryOperator" and n["op"] == "+" and const_val(n["rhs"]) == 2]
    ctx.ob("C13.R2b", "_split_timestamp_format_once:skips-modifier-length", bool(skip),
           "the remainder starts 2 characters after the modifier found", fn=sp)
    pp = facts.need(SF + "::_populate_pre_formatted_string_and_cached_indexes", "A")[0]
    rec = {}
    for n in pp.walk():
        if n["k"] == "IfStmt":
            lits = [x["str"] for x in walk(n["cond"]) if x["k"] == "StringLiteral"]
            if len(lits) != 1:
                continue
            for c in [x for x in walk(n["then"]) if is_call(x, r"std::vector<std::pair<.*>::emplace_back")]:
                ename, ev = enum_const(c, "format_type")
                e = strip(c["args"][0], casts=True)
                w = const_val(e["rhs"]) if isnode(e) and e["k"] == "BinaryOperator" and e["op"] == "-" and \
                    any(is_call(x, r"basic_string<.*>::size$") and is_this_field(call_obj(x), "_pre_formatted_ts") for x in walk(e["lhs"])) else None
                rec[lits[0]] = (ename, w)
                break
    ft = facts.need(SF + "::format_timestamp", "A")[0]
    finits = ft.var_inits()
    cases = {}
    for n in ft.walk():
        if n["k"] == "CaseStmt":
            ename, ev = enum_const(n.get("lhs"), "format_type")
            calls = [x for x in walk(n.get("sub")) if is_call(x, r"^fmtquill::(v\d+::)?format_to")]
            if not calls:
                continue
            c = calls[0]
            spec = [x["str"] for x in walk(c["args"][1]) if x["k"] == "StringLiteral"]
            val = c["args"][2] if len(c["args"]) > 2 else None
            idx_ok = any(is_call(x, r"basic_string<.*>::operator\[\]$") and is_this_field(call_obj(x), "_pre_formatted_ts") and
                         any(y["k"] == "MemberExpr" and y.get("mname") == "first" for y in walk(x)) for x in walk(c["args"][0]))
            cases[ename] = (spec[0] if spec else None, val, idx_ok)
    sw = [n for n in ft.walk() if n["k"] == "SwitchStmt"]
    sw_ok = bool(sw) and any(x["k"] == "MemberExpr" and x.get("mname") == "second" for x in walk(sw[0]["cond"]))
    quantity = {"H": "hours", "k": "hours", "M": "minutes", "S": "seconds", "I": "hours12", "l": "hours12", "s": "epoch"}
    # which locals are hours / minutes / seconds: by their defining arithmetic
    def classify(val):
        v = var_ref(val)
        if v is not None and v in finits:
            e = strip(finits[v], casts=True)
            if isnode(e) and e["k"] == "BinaryOperator" and e["op"] == "/" and const_val(e["rhs"]) == 3600:
                return "hours"
            if isnode(e) and e["k"] == "BinaryOperator" and e["op"] == "/" and const_val(e["rhs"]) == 60:
                return "minutes"
            if var_ref(e) is not None:
                return "seconds"  # remainder after hours and minutes were subtracted
        if is_this_field(strip(val, casts=True), "_cached_timestamp"):
            return "epoch"
        s = strip(val, casts=True)
        if isnode(s) and s["k"] == "ConditionalOperator":
            hs = set(classify(x) for x in walk(s) if x["k"] == "DeclRefExpr" and x.get("dk") == "Var")
            consts = set(x.get("val") for x in walk(s) if x["k"] == "IntegerLiteral")
            if hs == {"hours"} and consts == {0, 12}:
                return "hours12"
        return "?"
    for l in letters:
        r = rec.get("%" + l)
        c = cases.get(l)
        ok = r is not None and c is not None and r[0] == l and sw_ok
        why = "recorded by the '%%%s' test as %s" % (l, r)
        if ok:
            spec, val, idx_ok = c
            m = __import__("re").match(r"^\{:0?(\d+)\}$", spec or "")
            wspec = int(m.group(1)) if m else None
            q = classify(val)
            ok = wspec is not None and wspec == r[1] and q == quantity.get(l) and idx_ok
            why = "position size()-%s recorded for '%%%s'; patched with '%s' (width %s) from %s at the recorded index" % (r[1], l, spec, wspec, q)
        ctx.ob("C13.R2c", "format_type::%s" % l, ok, "modifier %%%s: %s (expected quantity: %s)" % (l, why, quantity.get(l)), fn=ft)
    ctx.floor("C13.R2c", "format_type enumerators", len(letters), 7)
    # hours/minutes/seconds decomposition of the cached seconds
    names = {classify({"k": "DeclRefExpr", "dk": "Var", "did": v, "name": "", "id": -1}) for v in finits}
    ctx.ob("C13.R2d", "format_timestamp:hms-decomposition", {"hours", "minutes"} <= names,
           "hours = total/3600 and minutes = remainder/60 are derived from the cached seconds-of-day", fn=ft)


def r3(ctx, facts):
    init = facts.need(SF + "::init", "A")[0]
    g = init.g
    throws = g.pos_of(lambda n: isnode(n) and n.get("k") == "CXXThrowExpr")
    ok = False
    for bid, b in g.blocks.items():
        c = g.term_cond(bid)
        if c is None:
            continue
        nc = norm_cmp(c)
        if nc and nc[0] in ("==", "!=") and any(x["k"] == "StringLiteral" and x.get("str") == "%X" for x in walk(c)) and \
                any(is_call(x, r"basic_string<.*>::find$") for x in walk(c)):
            lab = "T" if nc[0] == "!=" else "F"
            after = straight_after(g, bid, lab)
            parts = cpos(init, r"::_populate_initial_parts$")
            ok = any(p in throws for p in after) and not g.exists_path([tnode(g, bid)], parts, avoid_edges=[(bid, other(lab))])
    ctx.ob("C13.R3a", "StringFromTime::init:%X-rejected", ok, "a pattern containing %X ends in a throw before anything is cached", fn=init)
    ctor = [f for f in facts.fns if f.config == "A" and f.cls == TF and f.rec.get("ctor") and f.rec.get("inits")][0]
    cg = ctor.g
    throws = cg.pos_of(lambda n: isnode(n) and n.get("k") == "CXXThrowExpr")
    asg = [n for n in ctor.walk() if n["k"] == "BinaryOperator" and n["op"] == "=" and is_this_field(n["lhs"], "_additional_format_specifier")]
    # every selection after the first is preceded by a test 'one was already found' whose positive outcome throws
    order = sorted(asg, key=lambda n: int(n["loc"].split(":")[1]))
    ok = len(order) >= 3
    for a in order[1:]:
        ap = cg.positions(a)
        guarded = False
        for bid, b in cg.blocks.items():
            c = cg.term_cond(bid)
            if c is None:
                continue
            nc = norm_cmp(c)
            if nc and nc[0] in ("==", "!=") and any(x["k"] == "DeclRefExpr" and x.get("name", "").endswith("npos") for x in walk(c)) and \
                    not any(is_call(x) for x in walk(c) if x["k"] != "CXXOperatorCallExpr"):
                lab = "T" if nc[0] == "!=" else "F"  # already found
                if any(p in throws for p in straight_after(cg, bid, lab)) and all(cg.dominates([tnode(cg, bid)], p) for p in ap) and \
                        not cg.exists_path([tnode(cg, bid)], ap, avoid_edges=[(bid, other(lab))]):
                    # the test must come after the previous selection could have happened
                    guarded = True
        ok = ok and guarded
    ctx.ob("C13.R3b", "TimestampFormatter::ctor:distinct-specifiers-rejected", ok,
           "selecting a second (different) fractional specifier is preceded by a test 'one was already found' that throws", fn=ctor)
    # repeated specifier: the remainder handed to the second strftime part is searched for a specifier; a hit throws
    p2 = [c for c in ctor.calls(r"StringFromTime::init$") if is_this_field(call_obj(c), "_strftime_part_2")]
    ok = False
    if p2:
        pv = var_ref(p2[0]["args"][0])
        pp = cg.positions(p2[0])
        for bid, b in cg.blocks.items():
            c = cg.term_cond(bid)
            if c is None:
                continue
            nc = norm_cmp(c)
            finds = [x for x in walk(c) if is_call(x, r"basic_string<.*>::(find|rfind)$")]
            if not (nc and nc[0] in ("==", "!=") and finds):
                continue
            fc = finds[0]
            on_rest = (var_ref(call_obj(fc)) == pv and pv is not None) or (is_this_field(call_obj(fc), "_time_format") and len(fc["args"]) >= 2 and
                                                                           not (isnode(strip(fc["args"][1])) and strip(fc["args"][1])["k"] == "CXXDefaultArgExpr") and const_val(fc["args"][1]) != 0)
            about_spec = any(x["k"] == "DeclRefExpr" and x.get("name", "").endswith("specifier_name") for x in walk(fc)) or \
                any(x["k"] == "StringLiteral" and x.get("str", "").startswith("%Q") for x in walk(fc))
            if on_rest and about_spec:
                lab = "T" if nc[0] == "!=" else "F"
                if any(p in throws for p in straight_after(cg, bid, lab)) and not cg.exists_path([cg.entry_node], pp, avoid_edges=[(bid, other(lab))]):
                    ok = True
    ctx.ob("C13.R3c", "TimestampFormatter::ctor:repeated-specifier-rejected", ok,
           "the part of the pattern after the fractional specifier is searched for a further fractional specifier and a hit throws: "
           "nothing reaches strftime as a raw '%Q..' (a repeated specifier is 'more than one')", fn=ctor)
