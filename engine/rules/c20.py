"""C20 — exited threads drained then reclaimed; shrinking loses nothing (DESIGN §4 C20)."""
import re
from qlib import (AnalysisBroken, strip, isnode, walk, is_call, norm_cmp, var_ref, is_null, const_val, short, call_obj,
                  expr_key, field_name, is_this_field, atomic_op)
from rules.common import (core_and_neg, tnode, other, cpos, npos, branches_on_call, in_subtree, need_some, branches_on_var_null)
from qlib import atomic_op
from rules.c02 import cmp_sides
from rules import c02, c03
from rules.c09 import Renamed

EXPLANATION = ("Thread-context life cycle. R1: the dead-context counter (incremented once per thread exit, tested != 0 to trigger the "
               "clean-up) cannot wrap for any reachable number of contexts: integer of at least 32 bits (this rule found the pinned "
               "tree's 8-bit counter). R2: the thread-exit hook marks the context invalid and then counts it, on every path; removal "
               "erases the context and decrements the counter together while holding the registry lock; the counter is only touched "
               "by atomic RMW/loads. R3: a context is removed only when invalid and queue and transit buffer are empty (shared with "
               "C03.R5), and the clean-up runs on the idle path of the poll, after each flush request and at the end of the exit "
               "drain. R4: shrink() publishes a fresh, smaller node like growth does (C02.R2/R4 applied to it); the reported capacity "
               "of an unbounded queue is read on the producer side; the backend requests a transit-buffer shrink exactly when the "
               "new node is smaller, and try_shrink replaces storage only when the buffer is empty, resetting positions and mask."
               ' R6a: stored backtrace records own their data. R6b: the mapping a queue is given is mapped whole and returned whole (header slots agree between _alloc_aligned and _free_aligned).'
               " R8d (= C07.R1d): the 'drained' predicate looks at every thread that has logged. R9 (= C03.R6): the backend ring keeps power-of-two capacities through growth and shrink.")
NOT_DECIDED = ("'retained contexts = live threads' as a count for all schedules; that statements are not lost across a shrink as "
               "behaviour (C02/C03).")
ASSUMPTIONS = ["each registered context owns a mapped queue, so 2^32 simultaneously dead contexts cannot exist"]
BW = "quill::detail::BackendWorker::"
TCM = "quill::detail::ThreadContextManager"


def run(ctx):
    configs = ["A"] if ctx.tier == "quick" else ["A", "B"]
    for cfg in configs:
        facts = ctx.facts("core.cpp", cfg)
        r1_r2(ctx, facts, cfg)
        r3(ctx, facts, cfg)
        r4(ctx, facts, cfg)
        r5(ctx, facts, cfg)
        registry_walks(ctx, facts, cfg)
        r6_outlives_the_thread(ctx, facts, cfg)
        r7_queue_released(ctx, facts, cfg)
        # what 'its queue is empty' means for a context about to be reclaimed
        from rules import c02
        bn = {m.base: m for m in facts.fns if m.config == cfg and m.cls == c02.CLS and not m.rec.get("ctor") and not m.rec.get("dtor")}
        c02.check_empty_semantics(ctx, bn, rule="C20.R3-f")
        # 'the backend has drained' — the predicate that lets the idle work (which reclaims the contexts) and the exit run — looks at every
        # thread that has logged, threads that registered since the last reload included (= C07.R1d)
        from rules import c07
        c07.r1d(ctx, facts, cfg, rule="C20.R8d")
        # shrinking the backend's ring on request loses and reorders nothing: capacities are powers of two (mask = capacity - 1) at
        # construction, after growth and after a shrink (= C03.R6 ring rules)
        from rules import c03 as _c03
        from rules.c09 import Renamed as _Ren9
        _c03.r6_ring(_Ren9(ctx, "C03.R6", "C20.R9"), facts, cfg)


def registry_walk_loop(f, what):
    """([loop], loop variable) of the walk over the registry: a range-for, or the same walk with iterators —
    `for (auto it = v.begin()[, e = v.end()]; it != v.end() / e; ++it)`, the iterator advanced by the increment only"""
    loops = [n for n in f.walk() if n["k"] == "CXXForRangeStmt" and is_this_field(strip(n.get("range")), "_thread_contexts")]
    if loops:
        return loops, loops[0]["loopvar"]["did"]
    for n in [x for x in f.walk() if x["k"] == "ForStmt"]:
        init, cond, inc = n.get("init"), strip(n.get("cond")), strip(n.get("inc"))
        decls_ = ((init or {}).get("decls") or []) if isnode(init) else []
        its = [d for d in decls_ if isnode(d.get("init")) and
               any(is_call(x, r"std::vector<.*>::c?begin$") and is_this_field(call_obj(x), "_thread_contexts") for x in walk(d["init"]))]
        ends = set(d["did"] for d in decls_ if isnode(d.get("init")) and
                   any(is_call(x, r"std::vector<.*>::c?end$") and is_this_field(call_obj(x), "_thread_contexts") for x in walk(d["init"])))
        if len(its) != 1:
            continue
        itv_ = its[0]["did"]
        cond_ok = isnode(cond) and is_call(cond, r"operator!=") and \
            any(any(y["k"] == "DeclRefExpr" and y.get("did") == itv_ for y in walk(a)) for a in cond["args"]) and \
            any(any(is_call(x, r"std::vector<.*>::c?end$") and is_this_field(call_obj(x), "_thread_contexts") for x in walk(a)) or
                any(y["k"] == "DeclRefExpr" and y.get("did") in ends for y in walk(a)) for a in cond["args"])
        inc_ok = isnode(inc) and is_call(inc, r"operator\+\+") and any(y["k"] == "DeclRefExpr" and y.get("did") == itv_ for y in walk(inc))
        moved = [x for x in walk(n.get("body")) if is_call(x, r"operator(\+\+|--|\+=|-=|=)$") and x.get("args") and var_ref(x["args"][0]) == itv_]
        if cond_ok and inc_ok and not moved:
            return [n], itv_
    from rules.common import other_loop_over
    other_loop_over(f, "_thread_contexts", what)
    return [], None


def registry_walks(ctx, facts, cfg):
    """the registry hands every context to the visitor; a removal erases exactly the context it was given"""
    fe = facts.need(TCM + "::for_each_thread_context", cfg)
    for f in fe[:3]:
        loops, lv = registry_walk_loop(f, "for_each_thread_context")
        cbp = f.rec["params"][0]["did"]
        calls = [c for c in f.calls() if c["k"] == "CXXOperatorCallExpr" and var_ref(c["args"][0]) == cbp and
                 any(x["k"] == "DeclRefExpr" and x.get("did") == lv for a in c["args"][1:] for x in walk(a))]
        early = [x for x in walk(loops[0].get("body")) if x["k"] in ("BreakStmt", "ReturnStmt", "GotoStmt", "ContinueStmt")]
        ok = bool(calls) and all(in_subtree(c, loops[0]["body"]) for c in calls) and not early and \
            not f.g.exists_path(f.g.positions(loops[0]["body"]) or [f.g.entry_node], [f.g.exit_node], avoid_nodes=npos(f, calls)) if False else (bool(calls) and not early)
        ctx.ob("C20.R5g", "ThreadContextManager::for_each_thread_context:visits-all", ok,
               "the visitor is called with every registered context (range-for over the registry, no early exit) — the backend's cache, "
               "and with it draining and reclamation, sees every thread", fn=f)
    f = facts.need(TCM + "::remove_shared_invalidated_thread_context", cfg)[0]
    g = f.g
    tcp = f.rec["params"][0]["did"]
    er = [c for c in f.calls(r"std::vector<.*>::erase$") if is_this_field(call_obj(c), "_thread_contexts")]
    if not er:
        raise AnalysisBroken("remove_shared_invalidated_thread_context: erase not found")
    itv = var_ref(er[0]["args"][0])
    if itv is None:  # iterator -> const_iterator conversion around the variable
        vs = [x.get("did") for x in walk(er[0]["args"][0]) if x["k"] == "DeclRefExpr" and x.get("dk") == "Var"]
        itv = vs[0] if len(vs) == 1 else None
    asg = [a for a in f.assignments_to_var(itv)] if itv is not None else []
    match = []
    for bid, b in g.blocks.items():
        c = g.term_cond(bid)
        if c is None:
            continue
        nc = norm_cmp(c)
        if nc and nc[0] in ("==", "!=") and any(x["k"] == "DeclRefExpr" and x.get("did") == tcp for x in walk(c)) and any(is_call(x, r"shared_ptr<.*>::get$|__shared_ptr<.*>::get$") for x in walk(c)):
            match.append((bid, "T" if nc[0] == "==" else "F"))
    loops = [n for n in f.walk() if n["k"] == "ForStmt"]
    whole = False
    if loops:
        lp = loops[0]
        cnd = strip(lp.get("cond"))
        # the end of the walk: `_thread_contexts.end()` in the condition, or a local initialised once with it (nothing is inserted or erased
        # inside the loop: the erase comes after it)
        inits_ = f.var_inits()
        end_locals = set(v for v, i in inits_.items() if isnode(i) and not f.assignments_to_var(v) and
                         any(is_call(x, r"std::vector<.*>::c?end$") and is_this_field(call_obj(x), "_thread_contexts") for x in walk(i)))
        in_loop_mut = [c for c in f.calls(r"std::vector<.*>::(erase|insert|push_back|emplace_back|clear|resize)$")
                       if is_this_field(call_obj(c), "_thread_contexts") and in_subtree(c, lp.get("body") or {})]
        whole = isnode(cnd) and is_call(cnd, r"operator!=") and (any(is_call(x, r"std::vector<.*>::end$") and is_this_field(call_obj(x), "_thread_contexts") for x in walk(cnd)) or
                                                                 (not in_loop_mut and any(x["k"] == "DeclRefExpr" and x.get("did") in end_locals for x in walk(cnd)))) and \
            any(is_call(x, r"std::vector<.*>::begin$") and is_this_field(call_obj(x), "_thread_contexts") for x in walk(lp.get("init") or {}))
    elif f.calls(r"^std::find(_if)?\b"):
        whole = True
    ap = npos(f, asg)
    ok = itv is not None and bool(asg) and bool(match) and whole and not g.exists_path([g.entry_node], ap, avoid_edges=match) and \
        all(g.exists_path([y for (y, lab) in g.succ.get(tnode(g, b), ()) if lab == l], ap) for (b, l) in match)
    ctx.ob("C20.R2f", "ThreadContextManager::remove_shared_invalidated_thread_context:erases-the-given-context", ok,
           "the element erased is the one found by walking the whole registry and comparing each entry's pointer with the context handed "
           "in (the iterator is set exactly on the 'same pointer' outcome)", fn=f)


def r1_r2(ctx, facts, cfg):
    crec = facts.cls(TCM, cfg)
    if not crec:
        raise AnalysisBroken("ThreadContextManager not found")
    fld = [f for f in crec["fields"] if f["name"] == "_invalid_thread_context_count"]
    if not fld:
        raise AnalysisBroken("ThreadContextManager::_invalid_thread_context_count not found")
    fd = fld[0]
    m = re.match(r"^std::atomic<(.*)>$", fd["cty"])
    inner = m.group(1) if m else fd["cty"]
    integral = bool(re.match(r"^(unsigned |signed )?(char|short|int|long|long long)$", inner)) or inner in ("unsigned",)
    ok = bool(m) and integral and fd.get("bits", 0) >= 32
    ctx.ob("C20.R1", "ThreadContextManager::_invalid_thread_context_count:width", ok,
           "the dead-context counter is an atomic integer of %d bits (%s); at least 32 bits are required so that it cannot wrap to 0 while "
           "dead contexts are pending (8 bits wrap at 256 thread exits between two clean-ups)" % (fd.get("bits", 0), inner), loc=fd["loc"])
    # all accesses are atomic ops of the expected kind
    kinds = {}
    for f in facts.fns:
        if f.config != cfg or f.cls != TCM:
            continue
        for n in f.walk():
            a = atomic_op(n)
            if a and is_this_field(a["obj"], "_invalid_thread_context_count"):
                kinds.setdefault(f.base, []).append(a)
    add = kinds.get("add_invalid_thread_context", [])
    ok = len(add) == 1 and add[0]["kind"] == "rmw" and add[0]["op"] in ("fetch_add", "operator++", "operator+=") and \
        (add[0]["value"] is None or const_val(add[0]["value"]) == 1)
    ctx.ob("C20.R2a", "ThreadContextManager::add_invalid_thread_context:increments-by-one", ok,
           "a thread exit adds exactly one to the counter with an atomic RMW", loc=fd["loc"])
    has = facts.need(TCM + "::has_invalid_thread_context", cfg)[0]
    rets = [has.g.node_ast(r) for r in has.g.return_nodes()]
    ok = len(rets) == 1
    if ok:
        nc = norm_cmp(rets[0]["val"])
        v = strip(rets[0]["val"], casts=True)
        ok = (nc is not None and nc[0] == "!=" and "0" in (nc[1], nc[2]) and any((atomic_op(x) or {}).get("kind") == "load" for x in walk(rets[0]["val"]))) or \
            ((atomic_op(v) or {}).get("kind") == "load")
    ctx.ob("C20.R2b", "ThreadContextManager::has_invalid_thread_context:nonzero-test", ok,
           "'a dead context is pending' is the counter being different from zero", fn=has)
    # thread-exit hook
    d = [f for f in facts.fns if f.config == cfg and f.cls == "quill::detail::ScopedThreadContext" and f.rec.get("dtor")]
    if not d:
        raise AnalysisBroken("~ScopedThreadContext not found")
    d = d[0]
    g = d.g
    mi = cpos(d, r"ThreadContext::mark_invalid$")
    ai = cpos(d, r"ThreadContextManager::add_invalid_thread_context$")
    ok = bool(mi) and bool(ai) and not g.exists_path([g.entry_node], [g.exit_node], avoid_nodes=mi) and \
        not g.exists_path([g.entry_node], [g.exit_node], avoid_nodes=ai) and not g.exists_path(ai, mi)
    ctx.ob("C20.R2c", "~ScopedThreadContext:invalidate-then-count", ok,
           "at thread exit the context is marked invalid and then counted as dead, on every path (the backend that sees the count finds "
           "the invalid context)", fn=d)
    mk = facts.need("quill::detail::ThreadContext::mark_invalid", cfg)[0]
    ops = [atomic_op(n) for n in mk.walk() if atomic_op(n)]
    ok = len(ops) == 1 and ops[0]["kind"] == "store" and is_this_field(ops[0]["obj"], "_valid") and const_val(ops[0]["value"]) == 0
    ctx.ob("C20.R2c", "ThreadContext::mark_invalid:stores-false", ok, "mark_invalid() stores false into _valid", fn=mk)
    # removal
    r = facts.need(TCM + "::remove_shared_invalidated_thread_context", cfg)[0]
    g = r.g
    er = [c for c in r.calls(r"std::vector<.*>::erase$") if is_this_field(call_obj(c), "_thread_contexts")]
    sub = [n for n in r.walk() if (atomic_op(n) or {}).get("kind") == "rmw" and is_this_field(atomic_op(n)["obj"], "_invalid_thread_context_count")]
    ep, sp = npos(r, er), npos(r, sub)
    one = all(atomic_op(n)["op"] in ("fetch_sub", "operator--", "operator-=") and
              (atomic_op(n)["value"] is None or const_val(atomic_op(n)["value"]) == 1) for n in sub)
    locks = lock_positions(r)
    ok = bool(ep) and bool(sp) and one and not g.exists_path(ep, [g.exit_node], avoid_nodes=sp) and \
        not g.exists_path([g.entry_node], sp, avoid_nodes=ep) and bool(locks) and all(g.dominates(locks, p) for p in ep + sp)
    ctx.ob("C20.R2d", "ThreadContextManager::remove_shared_invalidated_thread_context:erase-and-decrement", ok,
           "a removal erases the context and decrements the counter by one together, while the registry lock is held "
           "(erase: %d, decrement: %d, lock held: %s)" % (len(er), len(sub), bool(locks)), fn=r)
    # the erased element is the one whose pointer equals the argument
    p0 = r.rec["params"][0]["did"]
    cmp_ok = any(n["k"] == "BinaryOperator" and n["op"] == "==" and (var_ref(n["lhs"]) == p0 or var_ref(n["rhs"]) == p0) for n in r.walk())
    ctx.ob("C20.R2e", "ThreadContextManager::remove_shared_invalidated_thread_context:finds-argument", cmp_ok,
           "the element erased is searched by comparing stored pointers with the argument", fn=r)


def lock_positions(f):
    """graph positions at which the registry spinlock is acquired (LockGuard construction or lock())"""
    g = f.g
    out = []
    for n in f.walk():
        if n["k"] == "DeclStmt":
            for d in n.get("decls") or []:
                if "LockGuard" in d.get("ty", "") and isnode(d.get("init")) and any(is_this_field(x, "_spinlock") for x in walk(d["init"])):
                    out.extend(g.positions(n))
        if is_call(n, r"Spinlock::lock$") and is_this_field(call_obj(n), "_spinlock"):
            out.extend(g.positions(n))
    return out


def r3(ctx, facts, cfg):
    c03.r5(Renamed(ctx, "C03.R5", "C20.R3-"), facts, cfg)
    poll = facts.need(BW + "_poll", cfg)[0]
    g = poll.g
    cl = cpos(poll, r"::_cleanup_invalidated_thread_contexts$")
    inits = poll.var_inits()
    empt = poll.calls(r"::_check_frontend_queues_and_cached_transit_events_empty$")
    vids = [vid for vid, i in inits.items() if isnode(i) and any(in_subtree(c, i) for c in empt)]
    edges = []
    for bid, b in g.blocks.items():
        c = g.term_cond(bid)
        if c is None:
            continue
        core, neg = core_and_neg(c)
        if var_ref(core) in vids:
            edges.append((bid, "F" if neg else "T"))
    ok = bool(cl) and bool(edges) and not g.exists_path([g.entry_node], cl, avoid_edges=edges) and \
        all(not g.exists_path([tnode(g, b)], [g.exit_node], avoid_nodes=cl, avoid_edges=[(b, other(l))]) for (b, l) in edges)
    ctx.ob("C20.R3a", "_poll:cleanup-when-idle", ok,
           "whenever a poll finds all queues and buffers empty it runs the dead-context clean-up (and only then)", fn=poll)
    ex = facts.need(BW + "_exit", cfg)[0]
    g = ex.g
    cl = cpos(ex, r"::_cleanup_invalidated_thread_contexts$")
    ok = bool(cl) and not g.exists_path([g.entry_node], [g.exit_node], avoid_nodes=cl)
    ctx.ob("C20.R3b", "_exit:cleanup-at-end", ok, "the exit drain ends with the dead-context clean-up on every path", fn=ex)
    pl = facts.need(BW + "_process_lowest_timestamp_transit_event", cfg)[0]
    g = pl.g
    cl = cpos(pl, r"::_cleanup_invalidated_thread_contexts$")
    stores = [n for n in pl.walk() if (atomic_op(n) or {}).get("kind") == "store" and var_ref(atomic_op(n)["obj"]) is not None]
    sp = npos(pl, stores)
    ok = bool(cl) and bool(sp) and all(g.dominates(cl, p) for p in sp)
    ctx.ob("C20.R3c", "_process_lowest_timestamp_transit_event:cleanup-before-flush-notify", ok,
           "a flush request triggers the clean-up before its caller is released", fn=pl)
    cu = facts.need(BW + "_cleanup_invalidated_thread_contexts", cfg)[0]
    g = cu.g
    br = branches_on_call(cu, r"::has_invalid_thread_context$")
    rem = cpos(cu, r"::remove_shared_invalidated_thread_context$")
    ok = bool(br) and not g.exists_path([g.entry_node], rem, avoid_edges=[(b, t) for (b, t, c) in br]) and \
        g.exists_path([tnode(g, br[0][0])], rem, avoid_edges=[(br[0][0], other(br[0][1]))])
    ctx.ob("C20.R3d", "_cleanup_invalidated_thread_contexts:triggered-by-counter", ok,
           "the scan for removable contexts runs whenever the dead-context counter is non-zero", fn=cu)


def r4(ctx, facts, cfg):
    byname = {m.base: m for m in facts.fns if m.config == cfg and m.cls == c02.CLS and not m.rec.get("ctor") and not m.rec.get("dtor")}
    if "shrink" not in byname:
        raise AnalysisBroken("UnboundedSPSCQueue::shrink not found")
    only_shrink = {"shrink": byname["shrink"]}
    c02.check_r2(Renamed(ctx, "C02.R2", "C20.R4-shrink-"), {**only_shrink, **{k: v for k, v in byname.items() if k == "_handle_full_queue"}})
    c02.check_r4(Renamed(ctx, "C02.R4", "C20.R4-cap-"), byname)
    pc = byname.get("producer_capacity")
    if pc is None:
        raise AnalysisBroken("UnboundedSPSCQueue::producer_capacity not found")
    rets = [pc.g.node_ast(r) for r in pc.g.return_nodes()]
    ok = len(rets) == 1 and is_call(strip(rets[0]["val"], casts=True), r"BoundedSPSCQueueImpl<.*>::capacity$") and \
        any(x["k"] == "MemberExpr" and x.get("arrow") and is_this_field(x.get("base"), "_producer") for x in walk(rets[0]["val"]))
    ctx.ob("C20.R4a", "UnboundedSPSCQueue::producer_capacity:reads-producer-node", ok,
           "the capacity reported to the owning thread is that of the producer's current node (drops as soon as shrink() switched)", fn=pc)
    n = 0
    for f in facts.fn("quill::FrontendImpl::get_thread_local_queue_capacity", cfg):
        unb = "Unbounded" in f.name
        calls = f.calls(r"SPSCQueue(Impl<.*>)?::(producer_capacity|capacity)$")
        ok = bool(calls) and all(("producer_capacity" in c["callee"]) == unb for c in calls)
        n += 1
        ctx.ob("C20.R4b", "FrontendImpl<%s>::get_thread_local_queue_capacity" % f.name.split("Impl<")[1].split(">")[0], ok,
               "the frontend reads the capacity through the %s accessor" % ("producer-side" if unb else "bounded queue's"), fn=f)
    ctx.floor("C20.R4b", "get_thread_local_queue_capacity instantiations", n, 4)
    for f in facts.fn("quill::FrontendImpl::shrink_thread_local_queue", cfg):
        unb = "Unbounded" in f.name
        calls = f.calls(r"UnboundedSPSCQueue::shrink$")
        ok = (len(calls) == 1 and var_ref(calls[0]["args"][0]) == f.rec["params"][0]["did"]) if unb else not calls
        ctx.ob("C20.R4c", "FrontendImpl<%s>::shrink_thread_local_queue" % f.name.split("Impl<")[1].split(">")[0], ok,
               "a shrink request %s" % ("reaches UnboundedSPSCQueue::shrink with the requested capacity" if unb else "is a no-op for bounded queues"), fn=f)
    # backend side
    rd = facts.need(BW + "_read_unbounded_frontend_queue", cfg)[0]
    g = rd.g
    rs = cpos(rd, r"TransitEventBuffer::request_shrink$")
    guard = []
    for bid, b in g.blocks.items():
        c = g.term_cond(bid)
        cs = cmp_sides(c) if c is not None else None
        if cs and field_name(cs[1]) == "new_capacity" and field_name(cs[2]) == "previous_capacity":
            guard.append((bid, cs[0]))
    ok = bool(rs) and bool(guard) and guard[0][1] == "<" and not g.exists_path([g.entry_node], rs, avoid_edges=[(guard[0][0], "T")])
    alloc = []
    for bid, b in g.blocks.items():
        c = g.term_cond(bid)
        if c is not None and field_name(core_and_neg(c)[0]) == "allocation":
            alloc.append((bid, "F" if core_and_neg(c)[1] else "T"))
    ok = ok and bool(alloc) and not g.exists_path([g.entry_node], rs, avoid_edges=alloc)
    ctx.ob("C20.R4d", "_read_unbounded_frontend_queue:request-shrink-iff-smaller", ok,
           "the backend asks for a transit-buffer shrink exactly when it switched to a node that is smaller than the previous one", fn=rd)
    rets = [g.node_ast(r) for r in g.return_nodes()]
    ok = len(rets) == 1 and field_name(rets[0]["val"]) == "read_pos"
    ctx.ob("C20.R4e", "_read_unbounded_frontend_queue:returns-read-position", ok,
           "the read position obtained from the queue is returned unchanged on every path (switching nodes loses nothing)", fn=rd)
    ts = facts.need("quill::detail::TransitEventBuffer::try_shrink", cfg)[0]
    g = ts.g
    repl = [n for n in ts.walk() if is_call(n, r"operator=$") and is_this_field(strip(n["args"][0], casts=True), "_storage")] + \
           [n for n in ts.walk() if n["k"] == "BinaryOperator" and n["op"] == "=" and is_this_field(n["lhs"], "_storage")]
    rp = npos(ts, repl)
    eb = branches_on_call(ts, r"TransitEventBuffer::empty$")
    ok = bool(rp) and bool(eb) and not g.exists_path([g.entry_node], rp, avoid_edges=[(b, t) for (b, t, c) in eb])
    asg = {}
    for n in ts.walk():
        if n["k"] == "BinaryOperator" and n["op"] == "=" and is_this_field(n["lhs"]):
            asg[field_name(n["lhs"])] = n
    pos_ok = all(k in asg and const_val(asg[k]["rhs"]) == 0 for k in ("_writer_pos", "_reader_pos"))
    mk = strip(asg["_mask"]["rhs"], casts=True) if "_mask" in asg else None
    mask_ok = isnode(mk) and mk["k"] == "BinaryOperator" and mk["op"] == "-" and const_val(mk["rhs"]) == 1 and is_this_field(mk["lhs"], "_capacity")
    cap_ok = "_capacity" in asg and is_this_field(asg["_capacity"]["rhs"], "_initial_capacity") and \
        all(not g.exists_path(g.positions(asg["_mask"]), g.positions(asg["_capacity"])) for _ in [0]) if "_mask" in asg and "_capacity" in asg else False
    ctx.ob("C20.R4f", "TransitEventBuffer::try_shrink:only-when-empty", ok and pos_ok and mask_ok and cap_ok,
           "the transit buffer's storage is replaced only when it is empty; positions restart at 0 and mask = capacity - 1 "
           "(guard: %s, positions: %s, mask: %s, capacity: %s)" % (ok, pos_ok, mask_ok, cap_ok), fn=ts)
    poll = facts.need(BW + "_poll", cfg)[0]
    ctx.ob("C20.R4g", "_poll:tries-shrink-when-idle", bool(poll.calls(r"::_try_shrink_empty_transit_event_buffers$")),
           "requested transit-buffer shrinks are attempted on the idle path", fn=poll)


def r5(ctx, facts, cfg):
    """a thread that logs for the first time becomes visible to the backend: registered under the lock, flag raised afterwards,
    the backend's cache is rebuilt from the whole registry whenever the flag was seen"""
    from qlib import is_release
    reg = facts.need(TCM + "::register_thread_context", cfg)[0]
    g = reg.g
    pb = npos(reg, [c for c in reg.calls(r"std::vector<.*>::(push_back|emplace_back)") if is_this_field(call_obj(c), "_thread_contexts")])
    st = [n for n in reg.walk() if (atomic_op(n) or {}).get("kind") == "store" and is_this_field(atomic_op(n)["obj"], "_new_thread_context_flag")]
    sp = npos(reg, st)
    locks = lock_positions(reg)
    ok = bool(pb) and bool(sp) and bool(locks) and all(g.dominates(pb, p) for p in sp) and not g.exists_path([g.entry_node], [g.exit_node], avoid_nodes=sp) and \
        all(const_val(atomic_op(n)["value"]) == 1 and is_release(atomic_op(n)["order"]) for n in st) and all(g.dominates(locks, p) for p in pb)
    ctx.ob("C20.R5a", "ThreadContextManager::register_thread_context:publish", ok,
           "a new context is appended under the registry lock and the 'new context' flag is raised (>= release) afterwards on every path", fn=reg)
    sc = [f for f in facts.fns if f.config == cfg and f.cls == "quill::detail::ScopedThreadContext" and f.rec.get("ctor") and f.rec.get("inits")]
    ok = bool(sc) and bool(sc[0].calls(r"ThreadContextManager::register_thread_context$"))
    ctx.ob("C20.R5b", "ScopedThreadContext::ctor:registers", ok, "creating a thread's context registers it with the manager", fn=sc[0] if sc else None)
    nf = facts.need(TCM + "::new_thread_context_flag", cfg)[0]
    ng = nf.g
    trues = ng.return_nodes(lambda r: const_val(r.get("val")) == 1)
    loads = []
    for bid, b in ng.blocks.items():
        c = ng.term_cond(bid)
        if c is None:
            continue
        core, neg = core_and_neg(c)
        a = atomic_op(core)
        if a and a["kind"] in ("load", "rmw") and is_this_field(a["obj"], "_new_thread_context_flag"):
            loads.append((bid, "F" if neg else "T"))
    ok = bool(trues) and bool(loads) and not ng.exists_path([ng.entry_node], trues, avoid_edges=loads) and \
        all(not ng.exists_path([tnode(ng, b)], [p for p in ng.return_nodes() if p not in trues], avoid_edges=[(b, other(l))]) for (b, l) in loads)
    ctx.ob("C20.R5c", "ThreadContextManager::new_thread_context_flag:reports-set-flag", ok,
           "the backend is told 'reload' exactly when the flag was observed set", fn=nf)
    up = facts.need(BW + "_update_active_thread_contexts_cache", cfg)[0]
    ug = up.g
    br = branches_on_call(up, r"::new_thread_context_flag$")
    clr = npos(up, [c for c in up.calls(r"std::vector<.*>::clear$") if is_this_field(call_obj(c), "_active_thread_contexts_cache")])
    fe = cpos(up, r"::for_each_thread_context<")
    lams = [x for x in facts.fns if x.config == cfg and x.rec.get("parent") == up.name]
    pushes_all = False
    for l in lams:
        lg = l.g
        pbs = npos(l, [c for c in l.calls(r"std::vector<.*>::(push_back|emplace_back)") if any(x["k"] == "MemberExpr" and x.get("mname") == "_active_thread_contexts_cache" for x in walk(c))])
        if pbs and not lg.exists_path([lg.entry_node], [lg.exit_node], avoid_nodes=pbs):
            pushes_all = True
    ok = bool(br) and bool(clr) and bool(fe) and all(ug.dominates(clr, p) for p in fe) and pushes_all and \
        all(not ug.exists_path([tnode(ug, b)], [ug.exit_node], avoid_nodes=fe, avoid_edges=[(b, other(t))]) for (b, t, c) in br)
    ctx.ob("C20.R5d", "_update_active_thread_contexts_cache:rebuilds-from-registry", ok,
           "when told to reload, the backend clears its cache and re-adds every registered context (none is skipped)", fn=up)
    fe_f = facts.need(TCM + "::for_each_thread_context", cfg)
    for x in fe_f[:1]:
        loops, _lv = registry_walk_loop(x, "ThreadContextManager::for_each_thread_context")
        early = [e for lp in loops for e in walk(lp.get("body")) if e["k"] in ("BreakStmt", "ReturnStmt", "ContinueStmt")]
        ctx.ob("C20.R5e", "ThreadContextManager::for_each_thread_context:visits-all", bool(loops) and not early and bool(lock_positions(x)),
               "the registry walk visits every context, under the lock", fn=x)
    # every poll refreshes the cache first
    poll = facts.need(BW + "_poll", cfg)[0]
    pg = poll.g
    u = cpos(poll, r"::_update_active_thread_contexts_cache$")
    rd = cpos(poll, r"::_populate_transit_events_from_frontend_queues$")
    ctx.ob("C20.R5f", "_poll:refresh-before-reading", bool(u) and bool(rd) and all(pg.dominates(u, p) for p in rd),
           "each poll refreshes the context cache before reading the queues", fn=poll)


def r6_outlives_the_thread(ctx, facts, cfg):
    """R6a: what the backend keeps beyond the life of a thread's context owns its data: the records of the backtrace ring (kept until the
    logger is flushed or removed, long after the thread that logged them may have exited and its context been reclaimed) have no member
    that merely refers to memory owned elsewhere (string_view, pointer, reference) — except inside the TransitEvent, whose pointers
    refer to static metadata and the logger. R6b: the mapping a queue was given is the mapping it returns: the length recorded in the
    block's header is the length handed to mmap, at the header slot _free_aligned reads its munmap length from; likewise the offset."""
    crec = facts.cls("quill::detail::BacktraceStorage::StoredTransitEvent", cfg)
    if not crec:
        raise AnalysisBroken("BacktraceStorage::StoredTransitEvent not found")
    nonown = [(x["name"], x["cty"]) for x in crec["fields"] if re.search(r"basic_string_view|\*|&|reference_wrapper|span<", x.get("cty") or x.get("ty") or "")]
    ctx.ob("C20.R6a", "BacktraceStorage::StoredTransitEvent:owns-thread-identity", not nonown and len(crec["fields"]) >= 3,
           "every member of a stored backtrace record owns its data (members %s; non-owning: %s): the record outlives the thread context "
           "the thread id and name were read from" % ([x["name"] for x in crec["fields"]], nonown), loc=crec.get("loc", ""))
    mapping_agreement(ctx, facts, cfg, "C20.R6b")


def mapping_agreement(ctx, facts, cfg, rule):
    """the block a queue is given is mapped whole and returned whole (shared with C01: the 2 x capacity storage lies inside the mapping
    only if every mmap call — the huge-page attempt and its fallback — asks for the full length)"""
    al = facts.need("quill::detail::BoundedSPSCQueueImpl::_alloc_aligned", cfg)
    fr = facts.need("quill::detail::BoundedSPSCQueueImpl::_free_aligned", cfg)

    def slot_of(e, base_ok):
        """e = base - K (K constant): K, else None"""
        e = strip(e, casts=True)
        while isnode(e) and e["k"] == "ParenExpr":
            e = strip(e.get("sub") or (e.get("c") or [None])[0], casts=True)
        if isnode(e) and e["k"] == "BinaryOperator" and e["op"] == "-" and base_ok(e["lhs"]):
            return const_val(e["rhs"])
        return None

    def addr_var(e):
        e = strip(e, casts=True)
        if isnode(e) and e["k"] == "UnaryOperator" and e.get("op") == "&":
            return var_ref(strip(e["sub"], casts=True))
        return None
    for a, f in zip(al[:2], fr[:2]):
        inits = a.var_inits()
        maps = a.calls(r"^(::)?mmap$")
        lens = {var_ref(strip(c["args"][1], casts=True)) for c in maps}
        wr = {}
        for c in a.calls(r"^(std::)?memcpy$"):
            k = slot_of(c["args"][0], lambda b: var_ref(strip(b, casts=True)) is not None)
            v = addr_var(c["args"][1])
            if k is not None and v is not None:
                wr[k] = v
        rd = {}
        ptr = f.rec["params"][0]["did"]
        for c in f.calls(r"^(std::)?memcpy$"):
            k = slot_of(c["args"][1], lambda b: any(var_ref(y) == ptr for y in walk(b)))
            v = addr_var(c["args"][0])
            if k is not None and v is not None:
                rd[k] = v
        un = f.calls(r"^(::)?munmap$")
        ok_len = len(lens) == 1 and None not in lens and bool(maps) and len(un) == 1
        len_var = next(iter(lens)) if ok_len else None
        w_slot = [k for k, v in wr.items() if v == len_var]
        un_len = var_ref(strip(un[0]["args"][1], casts=True)) if un else None
        r_slot = [k for k, v in rd.items() if v == un_len]
        ok_len = ok_len and len(w_slot) == 1 and w_slot == r_slot
        # the offset: written from (aligned - mem), read at the same slot, subtracted from ptr to give munmap's address
        finits = f.var_inits()
        un_addr = var_ref(strip(un[0]["args"][0], casts=True)) if un else None
        off_r = None
        if un_addr in finits and isnode(finits[un_addr]):
            e = strip(finits[un_addr], casts=True)
            if isnode(e) and e["k"] == "BinaryOperator" and e["op"] == "-" and any(var_ref(y) == ptr for y in walk(e["lhs"])):
                off_r = var_ref(strip(e["rhs"], casts=True))
        ro_slot = [k for k, v in rd.items() if v == off_r and off_r is not None]
        wo = [(k, v) for k, v in wr.items() if k in ro_slot]
        ok_off = bool(ro_slot) and len(wo) == 1 and wo[0][1] in inits and isnode(inits[wo[0][1]]) and \
            any(isnode(y) and y["k"] == "BinaryOperator" and y["op"] == "-" for y in walk(inits[wo[0][1]])) and ro_slot != r_slot
        # the length covers the request, the header and the worst-case alignment slack
        li = inits.get(len_var) if len_var is not None else None
        psz, pal = a.rec["params"][0]["did"], a.rec["params"][1]["did"]

        def terms(e):
            e = strip(e, casts=True)
            while isnode(e) and e["k"] in ("InitListExpr", "ParenExpr") and len(e.get("c") or []) == 1:
                e = strip(e["c"][0], casts=True)
            if isnode(e) and e["k"] == "BinaryOperator" and e["op"] == "+":
                return terms(e["lhs"]) + terms(e["rhs"])
            return [e]
        ts = terms(li) if isnode(li) else []
        hdr = [const_val(t) if const_val(t) is not None else const_val((a.var_decls().get(var_ref(t)) or {}).get("init")) for t in ts if var_ref(t) not in (psz, pal)]
        covers = len(ts) == 3 and sum(1 for t in ts if var_ref(t) == psz) == 1 and sum(1 for t in ts if var_ref(t) == pal) == 1 and \
            len(hdr) == 1 and hdr[0] is not None and hdr[0] >= max(list(wr.keys()) or [0])
        ctx.ob(rule, "%s:mapping-covers-request" % a.name.replace("quill::detail::", ""), covers,
               "the mapped length is size + header + alignment: the header constant (%s) reaches the farthest header slot written (%s bytes "
               "before the block) and a full alignment of slack is included" % (hdr, max(list(wr.keys()) or [0])), fn=a)
        ctx.ob(rule, "%s:mapping-length-recorded" % a.name.replace("quill::detail::", ""), ok_len and ok_off,
               "every mmap call asks for the same length, the one variable stored in the header slot (%s bytes before the block) that _free_aligned reads "
               "its munmap length from (%s); the offset to the mapping's start is stored and read back at its own slot (%s / %s)"
               % (w_slot, r_slot, [k for k, v in wo], ro_slot), fn=a)


def r7_queue_released(ctx, facts, cfg):
    """R7: when a context is reclaimed its queue gives everything back: ~UnboundedSPSCQueue walks from the consumer's node along `next`
    until the end, takes the successor *before* it deletes a node, and deletes every node it visits; ~BoundedSPSCQueueImpl hands its
    storage to _free_aligned."""
    ds = [f for f in facts.fns if f.config == cfg and f.rec.get("dtor") and f.cls == "quill::detail::UnboundedSPSCQueue"]
    if not ds:
        raise AnalysisBroken("~UnboundedSPSCQueue not found")
    f = ds[0]
    g = f.g
    inits = f.var_inits()
    cur = [v for v, i in inits.items() if isnode(i) and is_this_field(strip(i, casts=True), "_consumer")]
    loops = [n for n in f.walk() if n["k"] in ("WhileStmt", "ForStmt")]
    ok = len(cur) == 1 and len(loops) == 1
    if ok:
        lp = loops[0]
        from rules.common import eq_kind
        k = eq_kind(lp.get("cond")) if lp.get("cond") is not None else None
        core, neg = core_and_neg(lp.get("cond"))
        while_nonnull = (k is not None and k[0] == "!=" and any(var_ref(strip(s_, casts=True)) == cur[0] for s_ in k[1:]) and any(is_null(s_) for s_ in k[1:])) or \
            (var_ref(strip(core, casts=True)) == cur[0] and not neg)
        dels = [x for x in walk(lp.get("body")) if x["k"] == "CXXDeleteExpr"]
        adv = [x for x in walk(lp.get("body")) if x["k"] == "BinaryOperator" and x["op"] == "=" and var_ref(x["lhs"]) == cur[0] and
               any(y["k"] == "MemberExpr" and y.get("mname") == "next" for y in walk(x["rhs"]))]
        # what is deleted is the node that was current at the top of the iteration (held in a local before the advance)
        held = [d["did"] for x in walk(lp.get("body")) if x["k"] == "DeclStmt" for d in x.get("decls") or [] if isnode(d.get("init")) and var_ref(strip(d["init"], casts=True)) == cur[0]]
        delv = var_ref(strip(dels[0].get("arg") or dels[0].get("sub") or (dels[0].get("c") or [None])[0], casts=True)) if len(dels) == 1 else None
        del_ok = len(dels) == 1 and delv in held
        # second accepted idiom: next = current->next; delete current; current = next
        nxt = [d["did"] for x in walk(lp.get("body")) if x["k"] == "DeclStmt" for d in x.get("decls") or [] if isnode(d.get("init")) and
               any(y["k"] == "MemberExpr" and y.get("mname") == "next" and var_ref(strip(y.get("base"), casts=True)) == cur[0] for y in walk(d["init"]))]
        adv2 = [x for x in walk(lp.get("body")) if x["k"] == "BinaryOperator" and x["op"] == "=" and var_ref(x["lhs"]) == cur[0] and var_ref(strip(x["rhs"], casts=True)) in nxt]
        if len(dels) == 1 and delv == cur[0] and len(nxt) == 1 and len(adv2) == 1:
            head2 = g.positions(lp.get("cond")) or []
            np_ = g.pos_of(lambda n: isnode(n) and n.get("k") in ("Var", "DeclStmt") and (n.get("did") == nxt[0] or any(d.get("did") == nxt[0] for d in n.get("decls") or [])))
            early2 = [x for x in walk(lp.get("body")) if x["k"] in ("BreakStmt", "ReturnStmt", "ContinueStmt")]
            ok2 = while_nonnull and not early2 and bool(head2) and bool(np_) and not g.exists_path(npos(f, dels), np_, avoid_nodes=head2)
            ctx.ob("C20.R7a", "UnboundedSPSCQueue::~UnboundedSPSCQueue:frees-every-node", ok2,
                   "starting at the consumer's node the destructor continues while the node is not null, reads the node's successor before "
                   "deleting the node, and deletes every node it visits (no early exit)", fn=f)
            ok = None
        dp, ap = npos(f, dels), npos(f, adv)
        early = [x for x in walk(lp.get("body")) if x["k"] in ("BreakStmt", "ReturnStmt", "ContinueStmt")]
        head = g.positions(lp.get("cond")) or []
        if ok is not None:
            ok = while_nonnull and del_ok and len(adv) == 1 and not early and bool(head) and not g.exists_path(dp, ap, avoid_nodes=head) and \
                all(any(var_ref(strip(y.get("base"), casts=True)) == cur[0] for y in walk(a_["rhs"]) if y["k"] == "MemberExpr" and y.get("mname") == "next") for a_ in adv)
    if ok is not None:
        ctx.ob("C20.R7a", "UnboundedSPSCQueue::~UnboundedSPSCQueue:frees-every-node", ok,
               "starting at the consumer's node the destructor continues while the node is not null, reads the node's successor before deleting "
               "the node, and deletes every node it visits (no early exit)", fn=f)
    bd = [f_ for f_ in facts.fns if f_.config == cfg and f_.rec.get("dtor") and short(f_.cls or "") == "quill::detail::BoundedSPSCQueueImpl"]
    for f_ in bd[:2]:
        fr = f_.calls(r"BoundedSPSCQueueImpl<.*>::_free_aligned$")
        ok_b = len(fr) == 1 and is_this_field(strip(fr[0]["args"][0], casts=True), "_storage") and \
            not f_.g.exists_path([f_.g.entry_node], [f_.g.exit_node], avoid_nodes=npos(f_, fr))
        ctx.ob("C20.R7b", "%s::~BoundedSPSCQueueImpl:returns-storage" % f_.cls.replace("quill::detail::", ""), ok_b,
               "the destructor hands _storage to _free_aligned on every path", fn=f_)
