#include "quill/Backend.h"
#include "quill/Frontend.h"
#include "quill/LogMacros.h"
#include "quill/Logger.h"
#include "quill/sinks/NullSink.h"
#include <string>
struct FO : quill::FrontendOptions { static constexpr size_t initial_queue_capacity = 1024; };
using FE = quill::FrontendImpl<FO>;
int main(){
  quill::BackendOptions bo; bo.error_notifier = [](std::string const&){};
  quill::Backend::start(bo);
  auto s = FE::create_or_get_sink<quill::NullSink>("n");
  auto l = FE::create_or_get_logger("root", s);
  std::string big(600,'x');
  for(int round=0; round<2000; ++round){
    for(int i=0;i<8;i++) LOG_INFO(l, "{}", big);   // forces growth past the current node
    FE::preallocate();                              // frontend reads _consumer
    FE::shrink_thread_local_queue(1024);            // producer publishes a small node again
  }
  l->flush_log();
}
