"""ctw — compile-time witnesses. Where the code under a property is constexpr, the compiler evaluates it: a generated translation
unit holds a table of inputs with the expected outputs (computed here by an independent reference) and static_asserts, chunk by chunk,
that the library's function agrees on every row. The check is 'does this build against the current tree' (-fsyntax-only; nothing
is executed); a second pass with one assertion per row names the failing inputs."""
import os, re, subprocess
import qlib
from qlib import AnalysisBroken


def static_table(name, prelude, row_struct, rows, agrees, step=256, flags=()):
    """rows: list of C++ brace-initialisers for `struct Row { <row_struct> }`; agrees: C++ boolean expression over `r` (a const Row&).
    Returns the sorted list of indexes of rows on which `agrees` is false. Raises AnalysisBroken when the unit does not compile
    for another reason."""
    os.makedirs(qlib.CACHE, exist_ok=True)

    def write(path, per_row_from=None):
        with open(path, "w") as fh:
            fh.write(prelude + "\nstruct Row { %s };\nconstexpr Row rows[] = {\n" % row_struct)
            for r in rows:
                fh.write("  %s,\n" % r)
            fh.write("};\nconstexpr bool agrees(Row const& r) { return %s; }\n"
                     "constexpr int first_mismatch(int from, int to) { for (int i = from; i < to; ++i) if (!agrees(rows[i])) return i; return -1; }\n" % agrees)
            if per_row_from is None:
                for a in range(0, len(rows), step):
                    fh.write('static_assert(first_mismatch(%d, %d) == -1, "chunk %d");\n' % (a, min(len(rows), a + step), a))
            else:
                for i in range(per_row_from, min(len(rows), per_row_from + step)):
                    fh.write('static_assert(agrees(rows[%d]), "row %d");\n' % (i, i))

    def compile_(path):
        cmd = ["clang++", "-std=gnu++17", "-fsyntax-only", "-fno-access-control", "-fconstexpr-steps=400000000", "-ferror-limit=0", "-w",
               "-I" + qlib.SRC] + list(flags) + [path]
        r = subprocess.run(cmd, capture_output=True, text=True)
        return r.returncode, r.stderr
    src = os.path.join(qlib.CACHE, "ctw-%s.cpp" % name)
    write(src)
    rc, err = compile_(src)
    bad_chunks = sorted(set(int(m) for m in re.findall(r'static_assert failed[^\n]*"chunk (\d+)"', err)))
    if rc != 0 and not bad_chunks:
        raise AnalysisBroken("compile-time witness %s does not compile against the current tree: %s" % (name, err[:600]))
    bad = []
    for a in bad_chunks[:4]:
        p2 = os.path.join(qlib.CACHE, "ctw-%s-rows.cpp" % name)
        write(p2, per_row_from=a)
        rc2, err2 = compile_(p2)
        bad += [int(m) for m in re.findall(r'static_assert failed[^\n]*"row (\d+)"', err2)]
    if bad_chunks and not bad:
        bad = bad_chunks[:1]
    return sorted(set(bad))
