"""C07 — stop / exit / handled signal loses no completed statement (DESIGN §4 C07)."""
from qlib import (peel_not, AnalysisBroken, strip, isnode, walk, is_call, norm_cmp, var_ref, is_null, const_val, short, call_obj,
                  expr_key, field_name, is_this_field, atomic_op)
from rules.common import (core_and_neg, tnode, other, cpos, npos, branches_on_call, in_subtree, need_some, returns_bool,
                          loops_enclosing, try_stack, has_catch_all, flatten, branches_on_var_null)
from rules.c06 import zero_duration

EXPLANATION = ("Shutdown paths. R1: the exit drain can leave its loop only on the outcome 'queues and transit buffers empty (or waiting "
               "disabled)', that outcome flushes all sinks with a zero interval before leaving, and every other iteration re-reads the "
               "queues; the emptiness predicate covers both queue kinds and the transit buffer for every context. R2: in the worker "
               "thread the exit drain is reached on every path out of the main loop, inside its own catch-all; stop() clears the flag, "
               "wakes the worker and joins it in that order; a fresh once_flag is installed only after stop() returned (restart). "
               "R3: both Backend::start overloads run start_backend_thread and register the atexit stop inside call_once on the "
               "manager's flag. R4: in on_signal, on the frontend branch every path to std::exit / std::raise passes flush_log after "
               "the notice, SIGINT/SIGTERM exit with EXIT_SUCCESS and never re-raise, every raise is preceded by restoring SIG_DFL for "
               "that signal, the single-entry lock and the alarm precede all logging; init_signal_handler installs on_signal for every "
               "listed signal and on_alarm for SIGALRM; the default list is exactly the six signals of the property. R5: signals are "
               "blocked before and restored after the backend thread is spawned."
               ' R4m-q: the handler logs only off the backend thread and only while one exists, later entrants are parked, the signal number is recorded before the alarm, the signal is re-raised iff asked, on_alarm raises the recorded signal. R6: the API layer forwards (Backend::stop -> BackendManager -> BackendWorker::stop; start -> run(options); ManualBackendWorker::init -> _init; poll() until empty); _init records the worker thread id.')
NOT_DECIDED = ("Every crash point / process-exit ordering (static destruction order, async-signal-safety of the handler body), that "
               "the OS delivers the signal to a thread that logged before.")
ASSUMPTIONS = ["C03/C06 for what one drain iteration and flush_log do"]
from rules.c02 import cmp_sides
BW = "quill::detail::BackendWorker::"
SIGNUM = {"SIGTERM": 15, "SIGINT": 2, "SIGABRT": 6, "SIGFPE": 8, "SIGILL": 4, "SIGSEGV": 11, "SIGALRM": 14}


def run(ctx):
    configs = ["A"] if ctx.tier == "quick" else ["A", "B"]
    for cfg in configs:
        facts = ctx.facts("core.cpp", cfg)
        r1(ctx, facts, cfg)
        r2(ctx, facts, cfg)
        from rules import c02
        bn = {m.base: m for m in facts.fns if m.config == cfg and m.cls == c02.CLS and not m.rec.get("ctor") and not m.rec.get("dtor")}
        if "empty" not in bn:
            raise AnalysisBroken("UnboundedSPSCQueue::empty not found")
        c02.check_empty_semantics(ctx, bn, rule="C07.R1e")
        r3_r5(ctx, facts, cfg)
        r4(ctx, facts, cfg)
        r6_api_layer(ctx, facts, cfg)
        # the handler's fallback logger is a valid one (= C17.R10)
        from rules import c17
        c17.r10_get_valid_logger(ctx, facts, cfg, rule="C07.R4r")


def r1(ctx, facts, cfg):
    f = facts.need(BW + "_exit", cfg)[0]
    g = f.g
    inits = f.var_inits()
    empt = f.calls(r"::_check_frontend_queues_and_cached_transit_events_empty$")
    # the variable / condition that decides leaving the loop
    done_vars = [vid for vid, i in inits.items() if isnode(i) and any(in_subtree(c, i) for c in empt)]
    edges = []
    for bid, b in g.blocks.items():
        c = g.term_cond(bid)
        if c is None:
            continue
        core, neg = core_and_neg(c)
        if var_ref(core) in done_vars or is_call(core, r"::_check_frontend_queues_and_cached_transit_events_empty$"):
            edges.append((bid, "F" if neg else "T"))
    # shape of the 'done' expression: (!wait_for_queues...) || empty()
    shape_ok = False
    for vid in done_vars:
        parts = flatten(inits[vid], "||")
        has_empty = any(is_call(core_and_neg(p)[0], r"::_check_frontend_queues_and_cached_transit_events_empty$") and not core_and_neg(p)[1] for p in parts)
        has_opt = any(core_and_neg(p)[1] and field_name(core_and_neg(p)[0]) == "wait_for_queues_to_empty_before_exit" for p in parts)
        shape_ok = has_empty and (has_opt or len(parts) == 1) and len(parts) <= 2
    # leaving the drain loop: the cleanup after the loop is reachable only through the 'done' outcome
    cleanup = cpos(f, r"::_cleanup_invalidated_thread_contexts$") or [g.exit_node]
    ok = bool(edges) and shape_ok and not g.exists_path([g.entry_node], [g.exit_node], avoid_edges=edges)
    ctx.ob("C07.R1a", "_exit:leave-only-when-drained", ok,
           "the exit drain terminates only on the outcome 'all frontend queues and transit buffers are empty' (or when waiting is disabled "
           "by option); shape of the predicate ok: %s" % shape_ok, fn=f)
    flush = npos(f, [c for c in f.calls(r"::_flush_and_run_active_sinks$") if const_val(c["args"][0]) == 0 and zero_duration(c["args"][1])])
    ok = bool(flush) and bool(edges) and all(not g.exists_path([tnode(g, b)], [g.exit_node], avoid_nodes=flush, avoid_edges=[(b, other(l))]) for (b, l) in edges)
    ctx.ob("C07.R1b", "_exit:flush-before-terminating", ok,
           "on the 'drained' outcome all sinks are flushed unconditionally (zero interval) before the backend thread ends", fn=f)
    pop = cpos(f, r"::_populate_transit_events_from_frontend_queues$")
    proc = cpos(f, r"::_process_lowest_timestamp_transit_event$")
    ok = bool(pop) and bool(proc) and bool(edges) and all(
        not g.exists_path([tnode(g, b)], [tnode(g, b)], avoid_nodes=pop, avoid_edges=[(b, l)]) for (b, l) in edges)
    # ... and dispatches whenever anything is buffered: the only outcome that skips the dispatch is 'the read pass buffered nothing and
    # nothing was buffered before' — a guard like 'more than one event' leaves the last event in the buffer and the loop never ends
    cnt_vars = [vid for vid, i in inits.items() if isnode(i) and any(is_call(x, r"::_populate_transit_events_from_frontend_queues$") for x in walk(i))]
    skip_ok = True
    guards = 0
    for bid, b in g.blocks.items():
        c = g.term_cond(bid)
        if c is None or not any(var_ref(x) in cnt_vars for x in walk(c)):
            continue
        guards += 1
        nc = norm_cmp(c)
        cs = cmp_sides(c)
        nonzero = None
        if nc and nc[0] in ("==", "!=") and "0" in (nc[1], nc[2]):
            nonzero = "T" if nc[0] == "!=" else "F"
        elif cs and cs[0] == "<" and const_val(cs[1]) == 0 and var_ref(strip(cs[2], casts=True)) in cnt_vars:
            nonzero = "T"                       # 0 < count
        elif cs and cs[0] == "<=" and const_val(cs[1]) == 1 and var_ref(strip(cs[2], casts=True)) in cnt_vars:
            nonzero = "T"                       # 1 <= count
        elif cs and cs[0] == "<=" and var_ref(strip(cs[1], casts=True)) in cnt_vars and const_val(cs[2]) == 0:
            nonzero = "F"                       # count <= 0
        elif cs and cs[0] == "<" and var_ref(strip(cs[1], casts=True)) in cnt_vars and const_val(cs[2]) == 1:
            nonzero = "F"                       # count < 1
        if nonzero is None:
            skip_ok = False
            continue
        start = [y for (y, l2) in g.succ.get(tnode(g, bid), ()) if l2 == nonzero]
        # (the dispatch loop itself may decline — 'a queue has older statements that are not buffered yet' — and hand back to the read pass)
        if g.exists_path(start, [tnode(g, b2) for (b2, l2) in edges], avoid_nodes=proc + cpos(f, r"::has_pending_events_for_caching_when_transit_event_buffer_empty$")):
            skip_ok = False
    ctx.ob("C07.R1c", "_exit:iteration-reads-and-processes", ok and skip_ok,
           "every iteration that does not leave re-reads the frontend queues and, whenever the read pass buffered anything (count != 0, %d "
           "guard(s)), dispatches before testing again" % guards, fn=f)
    r1d(ctx, facts, cfg)


def r1d(ctx, facts, cfg, rule="C07.R1d"):
    """what 'everything is drained' means (shared: C17 erases a logger and C20 reclaims a context on this predicate)"""
    e = facts.need(BW + "_check_frontend_queues_and_cached_transit_events_empty", cfg)[0]
    eg = e.g
    rets = eg.return_nodes()
    rv = set(var_ref(eg.node_ast(r).get("val")) for r in rets)
    ok = len(rv) == 1 and None not in rv
    kinds = set()
    if ok:
        v = list(rv)[0]
        for n in e.walk():
            if n["k"] == "CompoundAssignOperator" and n["op"] == "&=" and var_ref(n["lhs"]) == v:
                c = strip(n["rhs"], casts=True)
                if is_call(c, r"UnboundedSPSCQueue::empty$"):
                    kinds.add("U")
                elif is_call(c, r"BoundedSPSCQueueImpl<.*>::empty$"):
                    kinds.add("B")
                elif is_call(c, r"TransitEventBuffer::empty$"):
                    kinds.add("T")
        others = [n for n in e.assignments_to_var(v) if not (n["k"] == "CompoundAssignOperator" and n["op"] == "&=")]
        init = e.var_decls().get(v, {}).get("init")
        loops = [n for n in e.walk() if n["k"] == "CXXForRangeStmt" and is_this_field(strip(n.get("range")), "_active_thread_contexts_cache")]
        if not loops:
            from rules.common import other_loop_over
            other_loop_over(e, "_active_thread_contexts_cache", "_check_frontend_queues_and_cached_transit_events_empty")
        early = [x for lp in loops for x in walk(lp.get("body")) if x["k"] in ("BreakStmt", "ReturnStmt", "GotoStmt", "ContinueStmt")]
        # ... reloaded on every path before the first context is looked at (a context registered since the last reload holds statements
        # the answer has to cover)
        upd = [p_ for c in e.calls(r"::_update_active_thread_contexts_cache$") for p_ in eg.positions(c)]
        looked = [p_ for lp in loops for x in walk(lp.get("body")) if is_call(x, r"::empty$") for p_ in eg.positions(x)]
        refresh = bool(upd) and bool(looked) and not eg.exists_path([eg.entry_node], looked, avoid_nodes=upd)
        ok = kinds == {"U", "B", "T"} and not others and bool(loops) and not early and refresh
    ctx.ob(rule, "_check_frontend_queues_and_cached_transit_events_empty:covers-everything", ok,
           "'empty' is the conjunction over every (freshly reloaded) thread context of queue.empty() for both queue kinds and "
           "transit-buffer.empty(): %s" % sorted(kinds), fn=e)


def r2(ctx, facts, cfg):
    run = facts.need(BW + "run", cfg)[0]
    lams = [x for x in facts.fns if x.config == cfg and x.rec.get("parent") == run.name]
    work = [l for l in lams if l.calls(r"::_poll$")]
    if not work:
        raise AnalysisBroken("worker lambda of BackendWorker::run not found")
    w = work[0]
    g = w.g
    ex = w.calls(r"BackendWorker::_exit$")
    ep = npos(w, ex)
    ok = bool(ep) and not g.exists_path([g.entry_node], [g.exit_node], avoid_nodes=ep)
    ctx.ob("C07.R2a", "run::worker:exit-drain-always-runs", ok,
           "every path through the worker thread function reaches the exit drain _exit()", fn=w)
    ok = bool(ex) and all(any(has_catch_all(t) for t in try_stack(w, c)) for c in ex)
    ctx.ob("C07.R2b", "run::worker:exit-drain-contained", ok, "_exit() runs inside its own try + catch-all", fn=w)
    # main loop runs while the flag is set; the poll's catch-all keeps the loop alive (so _exit is reached by falling out of the loop)
    polls = w.calls(r"::_poll$")
    loops = [a for a in w.ancestors(polls[0]) if a["k"] in ("WhileStmt", "DoStmt", "ForStmt")]
    ok = False
    if loops:
        a = None
        for x in walk(loops[0]["cond"]):
            a = atomic_op(x) or a
        ok = bool(a) and a["kind"] == "load" and is_this_field(a["obj"], "_is_worker_running") and \
            not g.exists_path(ep, npos(w, polls))
    ctx.ob("C07.R2c", "run::worker:loop-on-running-flag", ok,
           "the main loop is controlled by a load of _is_worker_running and the exit drain follows it (no poll after the drain)", fn=w)
    st = facts.need(BW + "stop", cfg)[0]
    sg = st.g
    exch = [n for n in st.walk() if (atomic_op(n) or {}).get("kind") in ("rmw", "store") and is_this_field(atomic_op(n)["obj"], "_is_worker_running")]
    xp = npos(st, exch)
    np_ = cpos(st, r"BackendWorker::notify$")
    jp = cpos(st, r"std::thread::join$")
    ok = bool(xp) and bool(np_) and bool(jp) and all(sg.dominates(xp, p) for p in np_) and all(sg.dominates(np_, p) for p in jp) and \
        all(const_val(atomic_op(n)["value"]) == 0 for n in exch)
    ctx.ob("C07.R2d", "stop:clear-notify-join", ok,
           "stop() clears the running flag, then wakes the worker, then joins it — in that order on every path", fn=st)
    # join is skipped only when not joinable / already stopped
    jb = branches_on_call(st, r"std::thread::joinable$")
    xb = []
    for bid, b in sg.blocks.items():
        c = sg.term_cond(bid)
        if c is None:
            continue
        core, neg = core_and_neg(c)
        a = atomic_op(core)
        if a and is_this_field(a["obj"], "_is_worker_running") and a["kind"] == "rmw":
            xb.append((bid, "F" if neg else "T"))  # label of 'was running'
    ok = bool(jb) and bool(xb) and not sg.exists_path([sg.entry_node], [sg.exit_node], avoid_nodes=jp,
                                                        avoid_edges=[(b, other(t)) for (b, t, c) in jb] + [(b, other(l)) for (b, l) in xb])
    ctx.ob("C07.R2e", "stop:join-unless-not-running", ok,
           "stop() returns without joining only when the worker was not running or the thread is not joinable", fn=st)
    sb = facts.need("quill::detail::BackendManager::stop_backend_thread", cfg)[0]
    bg = sb.g
    sp = cpos(sb, r"BackendWorker::stop$")
    newflag = [n for n in sb.walk() if n["k"] == "CXXNewExpr" and "once_flag" in n.get("ty", "")]
    xch = [n for n in sb.walk() if (atomic_op(n) or {}).get("kind") in ("rmw", "store") and is_this_field(atomic_op(n)["obj"], "_start_once_flag")]
    xp = npos(sb, xch)
    ok = bool(sp) and bool(newflag) and bool(xp) and all(bg.dominates(sp, p) for p in xp) and \
        not bg.exists_path([bg.entry_node], [bg.exit_node], avoid_nodes=xp) and \
        all(var_ref(atomic_op(n)["value"]) is not None or strip(atomic_op(n)["value"], casts=True)["k"] == "CXXNewExpr" for n in xch)
    ctx.ob("C07.R2f", "BackendManager::stop_backend_thread:fresh-once-flag-after-stop", ok,
           "a fresh once_flag is installed on every path, after stop() returned: the backend can be started again", fn=sb)
    ff = facts.need("quill::detail::BackendManager::get_start_once_flag", cfg)[0]
    ok = any((atomic_op(n) or {}).get("kind") == "load" and is_this_field(atomic_op(n)["obj"], "_start_once_flag") for n in ff.walk())
    ctx.ob("C07.R2f", "BackendManager::get_start_once_flag:current-flag", ok, "start() uses the currently installed once_flag", fn=ff)


def r3_r5(ctx, facts, cfg):
    starts = [f for f in facts.fn("quill::Backend::start", cfg)]
    ctx.floor("C07.R3", "Backend::start overloads/instantiations", len(starts), 2)
    sigs = set()
    for f in starts:
        sigs.add(len(f.rec["params"]))
        site = "Backend::start/%d%s" % (len(f.rec["params"]), ("<%s>" % f.rec["targs"][0]) if f.rec.get("targs") else "")
        co = f.calls(r"^std::call_once")
        ok_once = bool(co) and any(is_call(x, r"BackendManager::get_start_once_flag$") for x in walk(co[0]["args"][0])) if co else False
        lams = [x for x in facts.fns if x.config == cfg and x.rec.get("parent") == f.name]
        body = [l for l in lams if l.calls(r"BackendManager::start_backend_thread$")]
        ok_body = False
        mask_ok = None
        if body and co:
            l = body[0]
            lg = l.g
            in_once = any(x["k"] == "LambdaExpr" and l.name.endswith(x["lambda"]) for x in walk(co[0]))
            sp = cpos(l, r"BackendManager::start_backend_thread$")
            at = l.calls(r"^(std::)?atexit$")
            stoppers = [x for x in facts.fns if x.config == cfg and x.rec.get("parent") == l.name and x.calls(r"BackendManager::stop_backend_thread$")]
            at_ok = bool(at) and bool(stoppers) and any(x["k"] == "LambdaExpr" and stoppers[0].name.endswith(x["lambda"]) for x in walk(at[0]))
            ap = npos(l, at)
            ok_body = in_once and bool(sp) and at_ok and not lg.exists_path([lg.entry_node], [lg.exit_node], avoid_nodes=sp) and \
                not lg.exists_path([lg.entry_node], [lg.exit_node], avoid_nodes=ap)
            if len(f.rec["params"]) == 2:
                masks = l.calls(r"^sigprocmask$")
                inits_sh = l.calls(r"::init_signal_handler<")
                if len(masks) >= 2:
                    def addr_of(n):
                        n = strip(n, casts=True)
                        return var_ref(n["sub"]) if isnode(n) and n["k"] == "UnaryOperator" and n["op"] == "&" else None
                    block = [m for m in masks if addr_of(m["args"][1]) is not None and addr_of(m["args"][2]) is not None]
                    restore = [m for m in masks if is_null(m["args"][2]) and addr_of(m["args"][1]) is not None]
                    bp, rp = npos(l, block), npos(l, restore)
                    fill = l.calls(r"^sigfillset$")
                    mask_ok = bool(block) and bool(restore) and bool(fill) and \
                        all(addr_of(r["args"][1]) == addr_of(b["args"][2]) for r in restore for b in block) and \
                        all(lg.dominates(bp, p) for p in sp) and not lg.exists_path(sp, [lg.exit_node], avoid_nodes=rp) and \
                        all(const_val(m["args"][0]) == 2 for m in block + restore) and bool(inits_sh)
                else:
                    mask_ok = False
        ctx.ob("C07.R3", site + ":once-start-atexit", ok_once and ok_body,
               "inside call_once on the manager's flag the backend thread is started and std::atexit registers a stop of the backend "
               "(call_once on manager flag: %s, body: %s)" % (ok_once, ok_body), fn=f)
        if mask_ok is not None:
            ctx.ob("C07.R5", site + ":signal-mask-bracket", mask_ok,
                   "all signals are blocked (sigfillset + SIG_SETMASK) before the backend thread is spawned and the saved mask is restored "
                   "afterwards on every path; the handlers are installed", fn=f)
    if sigs != {1, 2}:
        raise AnalysisBroken("both Backend::start overloads expected, found arities %s" % sorted(sigs))


def other_(lab):
    return "F" if lab == "T" else "T"


def r4(ctx, facts, cfg):
    fns = facts.need("quill::detail::on_signal", cfg, floor=4)
    for f in fns:
        g = f.g
        site = "on_signal<%s>" % f.rec["targs"][0]
        sigp = f.rec["params"][0]["did"]
        inits = f.var_inits()
        gl = f.calls(r"SignalHandlerContext::get_logger$")
        lv = [vid for vid, i in inits.items() if isnode(i) and any(in_subtree(c, i) for c in gl)]
        if not lv:
            raise AnalysisBroken(site + ": logger lookup not found")
        nul = branches_on_var_null(f, lv[0])
        if not nul:
            raise AnalysisBroken(site + ": null test of the logger not found")
        bid, nl = nul[0]
        t = tnode(g, bid)
        front = g.reach([t], avoid_edges=[(bid, nl)])  # logger present
        flush = [p for p in cpos(f, r"LoggerImpl<.*>::flush_log$") if p in front]
        logs = [p for p in cpos(f, r"LoggerImpl<.*>::log_statement<") if p in front]
        exits = [p for p in cpos(f, r"^(std::)?exit$") if p in front]
        raises = [p for p in cpos(f, r"^(std::)?raise$") if p in front]
        if not exits or not raises:
            raise AnalysisBroken(site + ": exit/raise on the logging branch not found")
        ok = bool(flush) and not g.exists_path([t], exits + raises + [g.exit_node], avoid_nodes=flush, avoid_edges=[(bid, nl)])
        ctx.ob("C07.R4a", site + ":flush-before-dying", ok,
               "with a logger available, every path to std::exit / std::raise — and to the handler's return, when re-raising is switched "
               "off — passes flush_log (earlier statements and the notice are in the destination before the process ends or goes on)", fn=f)
        # R4m: the handler logs and waits for the backend only where that can work: on a thread that is not the backend worker, while a
        # backend worker exists (flush_log from the backend thread waits for itself; without a backend nobody ever sets the flag)
        bt = [vid for vid, i in inits.items() if isnode(i) and any((atomic_op(x) or {}).get("kind") == "load" and field_name(atomic_op(x)["obj"]) == "backend_thread_id" for x in walk(i))]
        ct = [vid for vid, i in inits.items() if isnode(i) and any(is_call(x, r"get_thread_id$") for x in walk(i))]
        none_e, same_e = [], []
        for b2, blk in g.blocks.items():
            c = g.term_cond(b2)
            if c is None:
                continue
            nc = norm_cmp(c)
            cc = peel_not(c)
            if not (nc and nc[0] in ("==", "!=") and isnode(cc) and cc["k"] == "BinaryOperator"):
                continue
            l_, r_ = var_ref(strip(cc["lhs"], casts=True)), var_ref(strip(cc["rhs"], casts=True))
            if bt and ((l_ in bt and const_val(cc["rhs"]) == 0) or (r_ in bt and const_val(cc["lhs"]) == 0)):
                none_e.append((b2, "T" if nc[0] == "==" else "F"))      # label of 'no backend thread'
            elif bt and ct and {l_, r_} == {bt[0], ct[0]}:
                same_e.append((b2, "T" if nc[0] == "==" else "F"))      # label of 'this is the backend thread'
        talk = flush + logs
        ok = bool(none_e) and bool(same_e) and bool(talk) and \
            not g.exists_path([g.entry_node], talk, avoid_edges=[(b2, other_(l2)) for (b2, l2) in none_e]) and \
            not g.exists_path([g.entry_node], talk, avoid_edges=[(b2, other_(l2)) for (b2, l2) in same_e])
        ctx.ob("C07.R4m", site + ":logs-only-off-the-backend-thread", ok,
               "logging and flush_log are reached only through the 'a backend thread exists' and the 'this is not the backend thread' "
               "outcomes (%d / %d tests)" % (len(none_e), len(same_e)), fn=f)
        # R4n: only the first thread to enter goes on; every later one is parked before it can log, exit or re-raise
        first_e = []
        lockv = [vid for vid, i in inits.items() if isnode(i) and any((atomic_op(x) or {}).get("kind") == "rmw" and field_name(atomic_op(x)["obj"]) == "lock" for x in walk(i))]
        for b2, blk in g.blocks.items():
            c = g.term_cond(b2)
            if c is None:
                continue
            nc = norm_cmp(c)
            cc = peel_not(c)
            if nc and nc[0] in ("==", "!=") and isnode(cc) and cc["k"] == "BinaryOperator" and lockv and \
                    ((var_ref(strip(cc["lhs"], casts=True)) in lockv and const_val(cc["rhs"]) == 0) or (var_ref(strip(cc["rhs"], casts=True)) in lockv and const_val(cc["lhs"]) == 0)):
                first_e.append((b2, "T" if nc[0] == "==" else "F"))     # label of 'first to enter'
        park = cpos(f, r"^pause$") + cpos(f, r"sleep_for")
        rmw1 = [n for n in f.walk() if (atomic_op(n) or {}).get("kind") == "rmw" and field_name(atomic_op(n)["obj"]) == "lock"]
        by_one = bool(rmw1) and all(atomic_op(n).get("op") in ("fetch_add", "operator++") and (const_val(atomic_op(n).get("value")) in (1, None)) for n in rmw1)
        everything = talk + cpos(f, r"^(std::)?exit$") + cpos(f, r"^(std::)?raise$") + cpos(f, r"^alarm$")
        ok = bool(first_e) and bool(park) and by_one and \
            not g.exists_path([g.entry_node], park, avoid_edges=[(b2, other_(l2)) for (b2, l2) in first_e]) and \
            all(not g.exists_path([y for (y, l3) in g.succ.get(tnode(g, b2), ()) if l3 == other_(l2)], everything, avoid_nodes=park) for (b2, l2) in first_e)
        ctx.ob("C07.R4n", site + ":later-entrants-parked", ok,
               "the entry counter is incremented by one; a thread that did not find it at 0 is parked (pause) before it can reach the alarm, "
               "the logging, exit or raise, and only such a thread is parked", fn=f)
        # R4q: a handled crash signal ends the process the way the user asked: re-raised exactly on the 'should re-raise' outcome
        rr = [vid for vid, i in inits.items() if isnode(i) and any((atomic_op(x) or {}).get("kind") == "load" and field_name(atomic_op(x)["obj"]) == "should_reraise_signal" for x in walk(i))]
        rr_e = []
        for b2, blk in g.blocks.items():
            c = g.term_cond(b2)
            if c is None:
                continue
            core, neg = core_and_neg(c)
            if rr and var_ref(strip(core, casts=True)) in rr:
                rr_e.append((b2, "F" if neg else "T"))
        all_r = cpos(f, r"^(std::)?raise$")
        ok = bool(rr_e) and bool(all_r) and not g.exists_path([g.entry_node], all_r, avoid_edges=rr_e) and \
            all(not g.exists_path([y for (y, l3) in g.succ.get(tnode(g, b2), ()) if l3 == l2], [g.exit_node], avoid_nodes=all_r + cpos(f, r"^(std::)?exit$")) for (b2, l2) in rr_e)
        ctx.ob("C07.R4q", site + ":reraised-iff-asked", ok,
               "std::raise is reached only through the 'should re-raise' outcome, and from that outcome every path ends in std::raise "
               "(%d test(s))" % len(rr_e), fn=f)
        # R4o: the alarm's handler re-raises the signal that is being handled: its number is recorded before the alarm is armed
        rec = npos(f, [n for n in f.walk() if (atomic_op(n) or {}).get("kind") == "store" and field_name(atomic_op(n)["obj"]) == "signal_number" and
                       var_ref(strip(atomic_op(n).get("value"), casts=True)) == sigp])
        alp = cpos(f, r"^alarm$")
        ctx.ob("C07.R4o", site + ":signal-recorded-before-alarm", bool(rec) and bool(alp) and all(g.dominates(rec, p) for p in alp),
               "the handled signal's number is stored for the timeout handler before the alarm is armed (on_alarm restores the default action "
               "for that number and raises it)", fn=f)
        ok = bool(logs) and not g.exists_path(flush, logs) and all(g.exists_path(logs, [p]) for p in flush)
        ctx.ob("C07.R4b", site + ":notice-before-flush", ok,
               "the handler's notice is logged before the flush and nothing is logged after it", fn=f)
        # flush_log(0): no sleeping inside a signal handler
        fl = [c for c in f.calls(r"LoggerImpl<.*>::flush_log$")]
        ctx.ob("C07.R4c", site + ":flush_log-zero-sleep", all(const_val(c["args"][0]) == 0 for c in fl if c.get("args")),
               "flush_log is invoked with a zero sleep interval (yield loop)", fn=f)
        # SIGINT / SIGTERM -> exit(EXIT_SUCCESS), reachable only under those comparisons
        tests = {}
        # a once-initialised local that holds 'sig == SIGINT || sig == SIGTERM' (any subset, any order) stands for those tests: its true
        # outcome means "one of them", its false outcome "none of them"; the short-circuit blocks inside its initialiser decide nothing
        combined = {}     # did -> set of signal numbers
        init_nodes = []
        for vid, i in inits.items():
            if not isnode(i) or f.assignments_to_var(vid):
                continue
            leaves = flatten(strip(i, casts=True), "||")
            vals = set()
            for lf in leaves:
                nl = norm_cmp(lf)
                ll = peel_not(lf)
                if nl and nl[0] == "==" and isnode(ll) and ll["k"] == "BinaryOperator":
                    for (x, y) in ((ll["lhs"], ll["rhs"]), (ll["rhs"], ll["lhs"])):
                        if var_ref(x) == sigp and const_val(y) in (2, 15):
                            vals.add(const_val(y))
                            break
                    else:
                        vals = None
                        break
                else:
                    vals = None
                    break
            if vals:
                combined[vid] = vals
                init_nodes.append(i)
        comb_e = []       # (block, label of 'one of them', values)
        for b2, blk in g.blocks.items():
            c = g.term_cond(b2)
            if c is None:
                continue
            if any(in_subtree(c, i) for i in init_nodes):
                continue
            core, neg = core_and_neg(c)
            if var_ref(strip(core, casts=True)) in combined:
                comb_e.append((b2, "F" if neg else "T", combined[var_ref(strip(core, casts=True))]))
                continue
            nc = norm_cmp(c)
            cc = peel_not(c)
            if nc and nc[0] == "==" and isnode(cc) and cc["k"] == "BinaryOperator":
                for (x, y) in ((cc["lhs"], cc["rhs"]), (cc["rhs"], cc["lhs"])):
                    if var_ref(x) == sigp and const_val(y) in (2, 15):
                        tests.setdefault(const_val(y), []).append(b2)
        all_exits = cpos(f, r"^(std::)?exit$")
        seen_vals = set(tests) | set(v for (_b, _l, vs) in comb_e for v in vs)
        ok = seen_vals == {2, 15} and not g.exists_path([g.entry_node], all_exits, avoid_edges=[(b2, "T") for v in tests.values() for b2 in v] +
                                                         [(b2, l2) for (b2, l2, _vs) in comb_e])
        ex_calls = f.calls(r"^(std::)?exit$")
        ok = ok and all(const_val(c["args"][0]) == 0 for c in ex_calls)
        ctx.ob("C07.R4d", site + ":int-term-exit-success", ok,
               "std::exit is reached only for SIGINT/SIGTERM and with EXIT_SUCCESS", fn=f)
        # SIGINT/SIGTERM never reach raise: on each side of the logger test, every path to a raise passes the 'different'
        # outcome of a test against SIGINT and of a test against SIGTERM
        ok = bool(tests) or bool(comb_e)
        all_raises = cpos(f, r"^(std::)?raise$")
        for v in (2, 15):
            fe = [(b2, "F") for b2 in tests.get(v, [])] + [(b2, other_(l2)) for (b2, l2, vs) in comb_e if v in vs]
            for p in all_raises:
                if g.exists_path([g.entry_node], [p], avoid_edges=fe):
                    ok = False
        ctx.ob("C07.R4e", site + ":int-term-not-reraised", ok,
               "std::raise is reached only through the 'not SIGINT' and 'not SIGTERM' outcomes (those two exit successfully instead)", fn=f)
        # every raise is preceded by signal(sig, SIG_DFL) for the same signal variable
        sd = [c for c in f.calls(r"^(std::)?signal$") if is_null(c["args"][1]) and var_ref(c["args"][0]) == sigp]
        sdp = npos(f, sd)
        rc = f.calls(r"^(std::)?raise$")
        ok = bool(sd) and all(var_ref(c["args"][0]) == sigp for c in rc) and \
            all(not g.exists_path([g.entry_node], [p], avoid_nodes=sdp) for p in cpos(f, r"^(std::)?raise$"))
        ctx.ob("C07.R4f", site + ":default-restored-before-raise", ok,
               "every std::raise(sig) is preceded by std::signal(sig, SIG_DFL) for the same signal: the process dies from the original signal", fn=f)
        # R4l: ... and never earlier than the flush: while the handler is still logging and flushing, the same signal arriving again
        # (a second kill, Ctrl-C twice, a second faulting thread) must find the handler — which parks it on the single-entry lock —
        # not the default action, which would end the process with statements still queued
        ok = bool(sdp) and bool(allflush := cpos(f, r"LoggerImpl<.*>::flush_log$")) and not g.exists_path(sdp, allflush + cpos(f, r"LoggerImpl<.*>::log_statement<"))
        ctx.ob("C07.R4l", site + ":default-not-restored-before-flush", ok,
               "std::signal(sig, SIG_DFL) is never followed by the handler's logging or flush: the default action comes back only after "
               "everything was written", fn=f)
        # single-entry lock and alarm precede logging
        lock = [n for n in f.walk() if (atomic_op(n) or {}).get("kind") == "rmw" and field_name(atomic_op(n)["obj"]) == "lock"]
        lp = npos(f, lock)
        al = cpos(f, r"^alarm$")
        allog = cpos(f, r"LoggerImpl<.*>::(log_statement<|flush_log$)")
        ok = bool(lp) and bool(al) and all(g.dominates(lp, p) for p in allog) and all(g.dominates(al, p) for p in allog)
        ctx.ob("C07.R4g", site + ":lock-and-alarm-first", ok,
               "the single-entry lock is taken and the timeout alarm armed before anything is logged", fn=f)
    # installation
    for f in facts.need("quill::detail::init_signal_handler", cfg, floor=4):
        site = "init_signal_handler<%s>" % f.rec["targs"][0]
        sc = f.calls(r"^(std::)?signal$")
        loops = [n for n in f.walk() if n["k"] == "CXXForRangeStmt"]
        lvs = [lp["loopvar"]["did"] for lp in loops]
        in_loop = [c for c in sc if var_ref(c["args"][0]) in lvs and any(x["k"] == "DeclRefExpr" and "on_signal" in x.get("name", "") for x in walk(c["args"][1]))]
        alarm = [c for c in sc if const_val(c["args"][0]) == 14 and any(x["k"] == "DeclRefExpr" and x.get("name", "").endswith("on_alarm") for x in walk(c["args"][1]))]
        rng_ok = bool(loops) and var_ref(loops[0].get("range")) == f.rec["params"][0]["did"]
        early = [x for lp in loops for x in walk(lp.get("body")) if x["k"] in ("BreakStmt", "ReturnStmt", "ContinueStmt")]
        ctx.ob("C07.R4h", site + ":installs-handlers", bool(in_loop) and bool(alarm) and rng_ok and not early,
               "on_signal is installed for every listed signal and on_alarm for SIGALRM", fn=f)
    oa = facts.need("quill::detail::on_alarm", cfg)[0]
    g = oa.g
    sd = npos(oa, [c for c in oa.calls(r"^(std::)?signal$") if is_null(c["args"][1])])
    rp = cpos(oa, r"^(std::)?raise$")
    ctx.ob("C07.R4i", "on_alarm:default-then-raise", bool(sd) and bool(rp) and all(g.dominates(sd, p) for p in rp),
           "the timeout handler restores the default action and re-raises", fn=oa)
    # R4p: ... for the recorded signal; its own number is recorded exactly when none was (SIGALRM arrived first)
    def of_recorded(c):
        return any(x["k"] == "MemberExpr" and x.get("mname") == "signal_number" for x in walk(c["args"][0]))
    sc_ = [c for c in oa.calls(r"^(std::)?signal$") if is_null(c["args"][1])] + oa.calls(r"^(std::)?raise$")
    ownp = oa.rec["params"][0]["did"]
    recs = [n for n in oa.walk() if ((atomic_op(n) or {}).get("kind") == "store" and field_name(atomic_op(n)["obj"]) == "signal_number" and
                                     var_ref(strip(atomic_op(n).get("value"), casts=True)) == ownp)]
    zero_e = []
    for b2, blk in g.blocks.items():
        c = g.term_cond(b2)
        nc = norm_cmp(c) if c is not None else None
        if nc and nc[0] in ("==", "!=") and any(x["k"] == "MemberExpr" and x.get("mname") == "signal_number" for x in walk(c)) and "0" in (nc[1], nc[2]):
            zero_e.append((b2, "T" if nc[0] == "==" else "F"))
    rp_ = npos(oa, recs)
    ok = bool(sc_) and all(of_recorded(c) for c in sc_) and bool(recs) and bool(zero_e) and \
        not g.exists_path([g.entry_node], rp_, avoid_edges=zero_e) and \
        all(not g.exists_path([y for (y, l3) in g.succ.get(tnode(g, b2), ()) if l3 == l2], sd + rp, avoid_nodes=rp_) for (b2, l2) in zero_e)
    ctx.ob("C07.R4p", "on_alarm:raises-the-recorded-signal", ok,
           "the default action is restored and the signal raised for the recorded number; the alarm's own number is recorded exactly on the "
           "'none recorded yet' outcome", fn=oa)
    # R4k: the handler finds a logger whenever one exists: the named logger is used only when it was found valid, every other path
    # falls back to any valid logger
    gl = facts.need("quill::detail::SignalHandlerContext::get_logger", cfg)[0]
    gg = gl.g
    fb = cpos(gl, r"LoggerManager::get_valid_logger$")
    ok_edges = []
    lookups = set()
    for vid, i in gl.var_inits().items():
        pass
    for n in gl.walk():
        if n["k"] == "BinaryOperator" and n["op"] == "=" and var_ref(n["lhs"]) is not None and any(is_call(x, r"LoggerManager::get_logger$") for x in walk(n["rhs"])):
            lookups.add(var_ref(n["lhs"]))
    for vid, i in gl.var_inits().items():
        if isnode(i) and any(is_call(x, r"LoggerManager::get_logger$") for x in walk(i)):
            lookups.add(vid)
    for (b, t, c) in branches_on_call(gl, r"LoggerBase::is_valid_logger$"):
        ok_edges.append((b, t))
    ok = bool(fb) and not gg.exists_path([gg.entry_node], [gg.exit_node], avoid_nodes=fb, avoid_edges=ok_edges)
    ctx.ob("C07.R4k", "SignalHandlerContext::get_logger:falls-back-to-any-valid-logger", ok,
           "the signal handler's logger lookup returns the configured logger only when it was found valid and otherwise falls back to any "
           "valid logger on every path (a missing or removed configured logger must not silence the handler: no notice, no flush, no "
           "re-raise)", fn=gl)
    sh = facts.cls("quill::SignalHandlerOptions", cfg)
    if not sh:
        raise AnalysisBroken("SignalHandlerOptions not found")
    fld = [x for x in sh["fields"] if x["name"] == "catchable_signals"]
    vals = set()
    if fld and isnode(fld[0].get("init")):
        for x in walk(fld[0]["init"]):
            if x["k"] == "IntegerLiteral":
                vals.add(x["val"])
    want = {SIGNUM[s] for s in ("SIGTERM", "SIGINT", "SIGABRT", "SIGFPE", "SIGILL", "SIGSEGV")}
    ctx.ob("C07.R4j", "SignalHandlerOptions::catchable_signals:default-list", vals == want,
           "the default catchable signals are exactly SIGSEGV, SIGABRT, SIGFPE, SIGILL, SIGINT, SIGTERM (found %s)" % sorted(vals),
           loc=fld[0]["loc"] if fld else "")



def r6_api_layer(ctx, facts, cfg):
    """R6: the public entry points are what they say. Backend::stop() reaches BackendManager::stop_backend_thread() and that reaches
    BackendWorker::stop(); start_backend_thread() hands the options to BackendWorker::run(); ManualBackendWorker::init() hands its
    options to _init(); poll() keeps calling poll_one() until the emptiness test says everything was processed (the timed form leaves
    early only on 'timeout exceeded')."""
    from rules.common import forwards
    forwards(ctx, facts, cfg, "C07.R6a", "quill::Backend::stop", r"BackendManager::stop_backend_thread$",
             "Backend::stop() calls BackendManager::stop_backend_thread() on every path")
    forwards(ctx, facts, cfg, "C07.R6a", "quill::detail::BackendManager::stop_backend_thread", r"BackendWorker::stop$",
             "stop_backend_thread() calls BackendWorker::stop() on every path", obj_field="_backend_worker")
    forwards(ctx, facts, cfg, "C07.R6a", "quill::detail::BackendManager::start_backend_thread", r"BackendWorker::run$",
             "start_backend_thread() hands its options to BackendWorker::run() on every path", param_idx=0, obj_field="_backend_worker")
    forwards(ctx, facts, cfg, "C07.R6a", "quill::ManualBackendWorker::init", r"BackendWorker::_init$",
             "ManualBackendWorker::init() hands its options to BackendWorker::_init() on every path", param_idx=0)
    # R6c: the signal handler decides 'am I the backend thread' (R4m) by this id: _init records the calling thread's id
    ini = facts.need(BW + "_init", cfg)[0]
    st = [n for n in ini.walk() if (atomic_op(n) or {}).get("kind") == "store" and is_this_field(atomic_op(n)["obj"], "_worker_thread_id") and
          any(is_call(x, r"get_thread_id$") for x in walk(atomic_op(n).get("value")))]
    thr_ = [q for x in ini.walk() if x["k"] == "CXXThrowExpr" for q in ini.g.positions(x)]
    ctx.ob("C07.R6c", "BackendWorker::_init:records-worker-thread-id", bool(st) and not ini.g.exists_path([ini.g.entry_node], [ini.g.exit_node], avoid_nodes=npos(ini, st) + thr_),
           "_init stores get_thread_id() of the thread that runs the backend into _worker_thread_id on every path that does not throw", fn=ini)
    gb = facts.need(BW + "get_backend_thread_id", cfg)[0]
    rets = [gb.g.node_ast(r) for r in gb.g.return_nodes()]
    ctx.ob("C07.R6c", "BackendWorker::get_backend_thread_id:returns-it", bool(rets) and all((atomic_op(strip(r.get("val"), casts=True)) or {}).get("kind") == "load" and
           is_this_field(atomic_op(strip(r.get("val"), casts=True))["obj"], "_worker_thread_id") for r in rets),
           "get_backend_thread_id() returns a load of _worker_thread_id", fn=gb)
    for f in facts.need("quill::ManualBackendWorker::poll", cfg, floor=2):
        g = f.g
        timed = bool(f.rec.get("params"))
        loops = [n for n in f.walk() if n["k"] in ("WhileStmt", "DoStmt", "ForStmt")]
        po = cpos(f, r"ManualBackendWorker::poll_one$")
        empt = branches_on_call(f, r"::_check_frontend_queues_and_cached_transit_events_empty$")
        ok = len(loops) == 1 and bool(po) and bool(empt) and all(in_subtree(c, loops[0].get("body")) for c in f.calls(r"ManualBackendWorker::poll_one$"))
        # the function is left only through the 'empty' outcome ... or, in the timed form, through 'elapsed > timeout'
        leave = list((b, t) for (b, t, c) in empt)
        if timed:
            for bid, b in g.blocks.items():
                c = g.term_cond(bid)
                from rules.common import rel_kind
                rk = rel_kind(c) if c is not None else None
                pd = f.rec["params"][0]["did"]
                if rk and ((rk[0] in (">", ">=") and any(var_ref(x) == pd for x in walk(rk[2])) and not any(var_ref(x) == pd for x in walk(rk[1]))) or
                           (rk[0] in ("<", "<=") and any(var_ref(x) == pd for x in walk(rk[1])) and not any(var_ref(x) == pd for x in walk(rk[2])))):
                    leave.append((bid, "T"))           # elapsed > timeout
        ok = ok and not g.exists_path([g.entry_node], [g.exit_node], avoid_edges=leave) and \
            all(not g.exists_path([y for (y, l3) in g.succ.get(tnode(g, b), ()) if l3 == other_(t)], [g.exit_node] + [tnode(g, b)], avoid_nodes=po) for (b, t, c) in empt)
        ctx.ob("C07.R6b", "ManualBackendWorker::poll%s:until-empty" % ("(timeout)" if timed else ""), ok,
               "polling continues — one poll_one() per round — until the emptiness test holds%s" % (" or the timeout was exceeded" if timed else ""), fn=f)
