"""layout — symbolic byte-layout summaries of codec functions (DESIGN §3.4).

A function that advances a byte cursor (encode / decode_arg) or accumulates a size (compute_encoded_size) is folded,
by structural interpretation of its (instantiated) AST, into a sequence of items:

  F(c)            cursor advances by a compile-time constant (sizeof evaluated in the instantiation)
  V(sym)          cursor advances by a run-time quantity described by a small symbolic term
  SUB(T)          a nested Codec<T> call on the same cursor (with a designator: which member/element)
  REP(count){..}  a loop
  OPT(cond){..}   a conditional part

Decode-side quantities that were read from the buffer ('ref k' = value decoded by item k) are resolved by value flow to
what the encode side stored at the same position. Nothing is executed; a shape that does not fold raises Unfoldable."""
import re
from qlib import (strip, isnode, walk, is_call, var_ref, const_val, call_obj, field_name, short, children, EXPLICIT_CASTS)


class Unfoldable(Exception):
    pass


CODEC_CALL = re.compile(r"^quill::Codec<(.*)>::(compute_encoded_size|encode|decode_arg|decode_and_store_arg)$")
FORMAT_CODEC = re.compile(r"^quill::(DeferredFormatCodec|DirectFormatCodec)<(.*)>::(compute_encoded_size|encode|decode_arg|decode_and_store_arg)$")


MEMBER_HELPERS = {"quill::compute_total_encoded_size": ("size", 1), "quill::encode_members": ("encode", 3), "quill::decode_members": ("decode", 2)}


def remove_cvref_txt(ty):
    """std::remove_cv_t<std::remove_reference_t<T>> on clang's spelling of a type"""
    t = ty.strip()
    while t.endswith("&"):
        t = t[:-1].rstrip()
    changed = True
    while changed:
        changed = False
        for q in ("const", "volatile"):
            if t.endswith("*" + q) or t.endswith("* " + q):
                t = t[:-len(q)].rstrip()
                changed = True
            elif "*" not in t and "<" not in t.split(q)[0] and t.startswith(q + " "):
                t = t[len(q) + 1:]
                changed = True
            elif "*" not in t and t.startswith(q + " "):
                t = t[len(q) + 1:]
                changed = True
    return t


def is_codec_call(x):
    return isnode(x) and x["k"] in ("CallExpr", "CXXMemberCallExpr") and bool(codec_of(x.get("callee")) or FORMAT_CODEC.match(x.get("callee") or ""))


def codec_of(callee):
    m = CODEC_CALL.match(callee or "")
    if m:
        t = m.group(1)
        if t.endswith(", void"):
            t = t[:-6]
        return t, m.group(2)
    return None


def norm_type(t):
    t = t.strip()
    t = t.replace("std::__cxx11::", "std::").replace("std::basic_string<char>", "std::string")
    t = t.replace("std::basic_string<char, std::char_traits<char>, std::allocator<char>>", "std::string")
    t = t.replace("std::basic_string_view<char>", "std::string_view").replace("std::basic_string_view<char, std::char_traits<char>>", "std::string_view")
    t = re.sub(r",\s*std::allocator<[^<>]*(<[^<>]*(<[^<>]*>)*[^<>]*>)*[^<>]*>\s*", "", t)
    t = re.sub(r"\s+", " ", t)
    return t


class Item:
    def __init__(self, kind, **kw):
        self.kind = kind
        self.__dict__.update(kw)

    def __repr__(self):
        if self.kind == "F":
            return "F%d" % self.n
        if self.kind == "V":
            return "V[%s]" % (self.sym,)
        if self.kind == "SUB":
            return "SUB<%s>%s" % (self.t, ("@" + self.des) if self.des else "")
        if self.kind == "REP":
            return "REP[%s]{%s}" % (self.count, " ".join(map(repr, self.body)))
        if self.kind == "OPT":
            return "OPT[%s]{%s}{%s}" % (self.cond, " ".join(map(repr, self.body)), " ".join(map(repr, self.orelse)))
        return self.kind


class Folder:
    """folds one function. kind in ('size','encode','decode')"""

    def __init__(self, fn, kind, facts, lambdas):
        self.fn = fn
        self.kind = kind
        self.facts = facts
        self.lambdas = lambdas  # parent fn name -> [lambda fns]
        self.env = {}           # did -> symbolic term
        self.pops = 0
        self.pushes = []
        self.push_ids = {}
        self.pop_ids = {}
        params = fn.rec.get("params") or []
        self.cursor = None
        self.argp = None
        self.cachep = None
        for p in params:
            ty = p.get("ty", "")
            if "std::byte *&" in ty or "std::byte*&" in ty:
                self.cursor = p["did"]
            elif "InlinedVector" in ty or "SizeCacheVector" in ty:
                self.cachep = p["did"]
            elif "uint32_t &" in ty or "unsigned int &" in ty:
                self.idxp = p["did"]
            elif "DynamicFormatArgStore" in ty:
                pass
            else:
                self.argp = p["did"]
        self.acc = None  # accumulator variable of the size pass

    # ------------------------------------------------------------------ symbolic terms
    def sym(self, e):
        e0 = e
        e = strip(e)
        if not isnode(e):
            return ("unk", "?")
        cv = const_val(e0)
        if cv is None:
            cv = const_val(e)
        if cv is not None and not self._mentions_runtime(e):
            return ("c", cv)
        k = e["k"]
        if k in EXPLICIT_CASTS or (k == "CXXConstructExpr" and len(e.get("args") or []) == 1 and (e.get("copy") or e.get("elidable"))):
            sub = e.get("sub") if k in EXPLICIT_CASTS else e["args"][0]
            return self.sym(sub)
        if k == "DeclRefExpr":
            did = e.get("did")
            if did in self.env:
                return self.env[did]
            if did == self.argp:
                return ("arg",)
            return ("var", e.get("name"))
        if k == "MemberExpr" and e.get("dk") == "Field":
            b = self.sym(e.get("base"))
            return ("member", b, e["mname"])
        if k == "UnaryOperator" and e["op"] == "*":
            return ("deref", self.sym(e["sub"]))
        if k == "CXXOperatorCallExpr" and (e.get("callee") or "").endswith("operator*") and len(e.get("args", [])) == 1:
            return ("deref", self.sym(e["args"][0]))
        if k == "BinaryOperator" and e["op"] in ("+", "-", "*"):
            a, b = self.sym(e["lhs"]), self.sym(e["rhs"])
            if a[0] == "c" and b[0] == "c":
                return ("c", {"+": a[1] + b[1], "-": a[1] - b[1], "*": a[1] * b[1]}[e["op"]])
            if e["op"] == "+":
                if a[0] == "strn" and b == ("c", 1):
                    return ("strn1",)
                if b[0] == "strn" and a == ("c", 1):
                    return ("strn1",)
                return ("add",) + tuple(sorted([a, b], key=repr))
            if e["op"] == "*":
                return ("mul",) + tuple(sorted([a, b], key=repr))
            return ("sub", a, b)
        if k == "ConditionalOperator":
            return ("cond", self.sym(e["then"]), self.sym(e["else"]))
        if k in ("CallExpr", "CXXMemberCallExpr", "CXXOperatorCallExpr"):
            c = e.get("callee") or ""
            sc = short(c)
            if sc.endswith("::safe_strnlen"):
                return ("strn",)
            if re.search(r"::(length|size)$", sc) and e["k"] == "CXXMemberCallExpr":
                return ("size", self.sym(call_obj(e)))
            if sc.endswith("::has_value") or sc.endswith("optional::operator bool"):
                return ("has", self.sym(call_obj(e)))
            if re.search(r"InlinedVector::push_back$", sc):
                x = self.sym(e["args"][0])
                if e["id"] not in self.push_ids:
                    self.push_ids[e["id"]] = len(self.pushes)
                    self.pushes.append(x)
                return ("push", self.push_ids[e["id"]], x)
            if re.search(r"InlinedVector::operator\[\]$", sc):
                if e["id"] not in self.pop_ids:
                    self.pop_ids[e["id"]] = self.pops
                    self.pops += 1
                return ("pop", self.pop_ids[e["id"]])
            if re.search(r"fmtquill::(v\d+::)?formatted_size", c):
                return ("fmtsize",)
            if sc.endswith("::numeric_limits::max") or sc.endswith("::max"):
                return ("c", -1)
            if re.search(r"::(string|data|c_str|first|second|get)$", sc):
                o = call_obj(e)
                return ("call", sc.split("::")[-1], self.sym(o) if o is not None else None)
            cd = codec_of(c)
            if cd and cd[1] == "decode_arg":
                raise Unfoldable("nested decode_arg in an expression that is not a statement-level definition at %s" % e.get("loc"))
            # a free helper that is handed the size cache and returns what its single push_back returns (the 'clamp and cache the
            # length' lines extracted into a function): the call is that push, with the helper's parameters bound to the arguments
            if k == "CallExpr" and self.cachep is not None and any(var_ref(strip(a_, casts=True)) == self.cachep for a_ in e.get("args") or []):
                hs = [h for h in (self.facts.by_name.get(c) or self.facts.by_short.get(sc) or []) if h.config == self.fn.config] if self.facts is not None else []
                if hs:
                    h = hs[0]
                    pb = [x for x in h.walk() if isnode(x) and x.get("k") == "CXXMemberCallExpr" and re.search(r"InlinedVector::push_back$", short(x.get("callee") or ""))]
                    rets = [x for x in h.walk() if isnode(x) and x.get("k") == "ReturnStmt"]
                    ps = h.rec.get("params") or []
                    if len(pb) == 1 and len(rets) == 1 and any(y is pb[0] for y in walk(rets[0])) and len(ps) == len(e.get("args") or []):
                        saved = self.env
                        self.env = {p_["did"]: self.sym(a_) for p_, a_ in zip(ps, e["args"])}
                        try:
                            x = self.sym(pb[0]["args"][0])
                        finally:
                            self.env = saved
                        if e["id"] not in self.push_ids:
                            self.push_ids[e["id"]] = len(self.pushes)
                            self.pushes.append(x)
                        return ("push", self.push_ids[e["id"]], x)
                raise Unfoldable("the size cache is handed to %s, whose effect on it is not a single returned push_back (%s)" % (sc, e.get("loc")))
        return ("unk", k)

    def _mentions_runtime(self, e):
        for x in walk(e):
            if x["k"] == "DeclRefExpr" and x.get("dk") in ("Var", "ParmVar") and "cval" not in x:
                return True
            if x["k"] in ("CallExpr", "CXXMemberCallExpr") and "cval" not in x:
                return True
        return False

    # ------------------------------------------------------------------ helpers
    def is_cursor(self, e):
        return var_ref(e) == self.cursor and self.cursor is not None

    def designator(self, val):
        """which part of the argument a nested codec call is applied to"""
        s = self.sym(val) if isnode(val) else val
        return des_of(s)

    # ------------------------------------------------------------------ statements
    def fold_body(self, body):
        items = []
        self._stmt(body, items)
        return items

    def _stmt(self, s, items):
        s = strip(s) if isnode(s) and s["k"] in ("ExprWithCleanups",) else s
        if not isnode(s):
            return
        k = s["k"]
        if k == "CompoundStmt":
            for c in s.get("c") or []:
                self._stmt(c, items)
            return
        if k in ("NullStmt", "BreakStmt", "ContinueStmt"):
            return
        if k == "DeclStmt":
            for d in s.get("decls") or []:
                self._decl(d, items)
            return
        if k == "ReturnStmt":
            v = s.get("val")
            if v is not None:
                if self.kind == "size" and var_ref(v) == self.acc and self.acc is not None:
                    return
                self._expr_stmt(v, items, returning=True)
            return
        if k == "IfStmt":
            then_items, else_items = [], []
            cond_sym = None
            if any(is_codec_call(x) for x in walk(s.get("cond"))):
                before = len(items)
                self._expr_stmt(s.get("cond"), items)
                if len(items) == before + 1:
                    cond_sym = ("ref", len(items) - 1)
                else:
                    raise Unfoldable("condition with nested codec calls at %s" % s.get("loc"))
            saved = dict(self.env)
            self._stmt(s.get("then"), then_items)
            env_then = self.env
            self.env = dict(saved)
            self._stmt(s.get("else"), else_items)
            # merge environments (clamps etc.): keep entries that agree, prefer 'then' view for re-assigned clamps
            merged = dict(self.env)
            for kk, vv in env_then.items():
                if kk not in merged or merged[kk] == vv or kk in saved:
                    merged[kk] = saved.get(kk, vv) if (kk in saved and saved[kk] != vv and vv == ("c", -1)) else vv
            self.env = merged
            if not then_items and not else_items:
                # a clamp or a copy variant that does not move the cursor: quantities keep their meaning
                self.env = saved
                return
            if s.get("constexpr"):
                # in an instantiation only the taken arm has content
                items.extend(then_items or else_items)
                return
            if repr(then_items) == repr(else_items):
                items.extend(then_items)
                return
            items.append(Item("OPT", cond=cond_sym if cond_sym is not None else self.sym(s.get("cond")), body=then_items, orelse=else_items))
            return
        if k == "CXXForRangeStmt":
            body_items = []
            lv = s.get("loopvar")
            rng = self.sym(s.get("range"))
            if lv:
                self.env[lv["did"]] = ("elem", rng)
            count = ("size", rng)
            rty = (strip(s.get("range")) or {}).get("ty", "") if isnode(strip(s.get("range"))) else ""
            m = re.search(r"std::array<.*,\s*(\d+)(UL|ul)?>\s*$", rty.replace("const ", "").strip())
            if m:
                count = ("c", int(m.group(1)))
            # a built-in array T[N] (range-for over `const T (&)[N]`): N iterations
            m2 = re.search(r"\[(\d+)\]\s*$", rty.replace("const ", "").strip())
            if m2 and "std::" not in rty.split("[")[0][-1:]:
                count = ("c", int(m2.group(1)))
            self._stmt(s.get("body"), body_items)
            # a counter incremented once per element equals the number of elements afterwards
            for x in walk(s.get("body")):
                if x["k"] == "UnaryOperator" and x["op"] == "++" and var_ref(x["sub"]) is not None and var_ref(x["sub"]) != (lv or {}).get("did"):
                    # ... provided it started at zero
                    started = self.env.get(var_ref(x["sub"]))
                    self.env[var_ref(x["sub"])] = count if started in (None, ("c", 0)) else ("unk", "counter that does not start at 0")
            if body_items:
                items.append(Item("REP", count=count, body=body_items))
            return
        if k == "ForStmt":
            body_items = []
            init = s.get("init")
            iv = None
            if isnode(init) and init["k"] == "DeclStmt" and init.get("decls"):
                iv = init["decls"][0]["did"]
                self.env[iv] = ("i",)
            cond = strip(s.get("cond"))
            count = ("unk", "loop")
            starts_at_zero = isnode(init) and init["k"] == "DeclStmt" and init.get("decls") and const_val(init["decls"][0].get("init")) == 0
            if isnode(cond) and cond["k"] == "BinaryOperator" and cond["op"] in ("<", "!=") and var_ref(cond["lhs"]) == iv and starts_at_zero:
                count = self.sym(cond["rhs"])
            self._stmt(s.get("body"), body_items)
            if body_items:
                items.append(Item("REP", count=count, body=body_items))
            return
        if k in ("WhileStmt", "DoStmt"):
            # the counting form of a for loop written as a while: `size_t i = 0; while (i < N) { ...; ++i; }` — the counter is a local
            # that holds the constant 0 when the loop is entered, the condition compares it with N, the body's last statement increments
            # it by one, nothing else in the body assigns it or leaves the loop
            cond = strip(s.get("cond")) if k == "WhileStmt" else None
            iv = var_ref(cond["lhs"]) if isnode(cond) and cond["k"] == "BinaryOperator" and cond["op"] in ("<", "!=") else None
            body = s.get("body")
            stmts = (body.get("c") or []) if isnode(body) and body["k"] == "CompoundStmt" else []
            last = strip(stmts[-1]) if stmts else None
            inc_ok = isnode(last) and ((last["k"] == "UnaryOperator" and last["op"] in ("++",) and var_ref(last["sub"]) == iv) or
                                       (last["k"] == "CompoundAssignOperator" and last["op"] == "+=" and var_ref(last["lhs"]) == iv and const_val(last["rhs"]) == 1))
            others = [x for st in stmts[:-1] for x in walk(st) if
                      (x["k"] in ("BreakStmt", "ContinueStmt", "ReturnStmt", "GotoStmt")) or
                      (x["k"] == "UnaryOperator" and x["op"] in ("++", "--") and var_ref(x["sub"]) == iv) or
                      (x["k"] in ("BinaryOperator", "CompoundAssignOperator") and x.get("op", "").endswith("=") and
                       x["op"] not in ("==", "!=", "<=", ">=") and var_ref(x.get("lhs")) == iv)]
            if iv is not None and self.env.get(iv) == ("c", 0) and inc_ok and not others:
                count = self.sym(cond["rhs"])
                self.env[iv] = ("i",)
                body_items = []
                for st in stmts[:-1]:
                    self._stmt(st, body_items)
                if body_items:
                    items.append(Item("REP", count=count, body=body_items))
                return
            body_items = []
            self._stmt(s.get("body"), body_items)
            if body_items:
                raise Unfoldable("while loop that moves the cursor at %s" % s.get("loc"))
            return
        if k == "CXXTryStmt":
            self._stmt(s.get("tryblock"), items)
            return
        self._expr_stmt(s, items)

    def _decl(self, d, items):
        init = d.get("init")
        did = d["did"]
        if not isnode(init):
            return
        i = strip(init, casts=True)
        if isnode(i) and i["k"] == "InitListExpr" and len(i.get("c") or []) == 1:
            i = strip(i["c"][0], casts=True)
        # nested codec call defining a variable
        calls = [x for x in walk(init) if x["k"] in ("CallExpr", "CXXMemberCallExpr") and (codec_of(x.get("callee")) or FORMAT_CODEC.match(x.get("callee") or ""))]
        if calls:
            if self.kind == "size" and did != self.acc:
                part = []
                self._add_terms(init, part)
                self.env[did] = ("partial", tuple(part))
                return
            before = len(items)
            self._expr_stmt(init, items, defining=did)
            if len(items) > before and self.kind == "decode":
                self.env[did] = ("ref", len(items) - 1)
            return
        if self.kind == "size" and self.acc == did:
            # size accumulator: its initial value contributes
            self._add_terms(init, items)
            return
        self.env[did] = self.sym(init)
        # reinterpret_cast of the cursor: a view into the buffer
        if self.kind == "decode" and any(x["k"] == "DeclRefExpr" and x.get("did") == self.cursor for x in walk(init)):
            self.env[did] = ("bufview",)

    def _is_plain_len(self, init):
        s = self.sym(init)
        return s[0] in ("strn1", "strn", "size", "add") and self.kind == "size" and any(is_call(x, r"safe_strnlen") for x in walk(init))

    def depth_top(self, items):
        return True

    def _add_terms(self, e, items):
        """size pass: split an expression into summands and append an item for each"""
        e1 = strip(e, casts=True)
        if isnode(e1) and e1["k"] == "InitListExpr" and len(e1.get("c") or []) == 1:
            e1 = strip(e1["c"][0], casts=True)
        if self.acc is not None and var_ref(e1) == self.acc and getattr(self, "acc_is_running_sum", False):
            return      # the running sum handed to an accumulate lambda: what was added before, not a new summand
        if isnode(e1) and e1["k"] == "BinaryOperator" and e1["op"] == "+" and const_val(e1) is None:
            # keep strnlen + 1 together
            s = self.sym(e1)
            if s == ("strn1",):
                items.append(Item("V", sym=s))
                return
            self._add_terms(e1["lhs"], items)
            self._add_terms(e1["rhs"], items)
            return
        if isnode(e1) and e1["k"] in ("CallExpr", "CXXMemberCallExpr"):
            cd = codec_of(e1.get("callee"))
            fc = FORMAT_CODEC.match(e1.get("callee") or "")
            if cd and cd[1] == "compute_encoded_size":
                items.append(Item("SUB", t=norm_type(cd[0]), des=self.designator(e1["args"][1]), val=self.sym(e1["args"][1])))
                return
            if fc and fc.group(3) == "compute_encoded_size":
                items.append(Item("SUBF", t=fc.group(1) + "<" + norm_type(fc.group(2)) + ">", des=None, val=None))
                return
        v = var_ref(e1)
        if v is not None and isinstance(self.env.get(v), tuple) and self.env[v] and self.env[v][0] == "partial":
            items.extend(self.env[v][1])
            return
        s = self.sym(e1)
        self._append_sym(s, items)

    def _append_sym(self, s, items):
        if s[0] == "c":
            if s[1] != 0:
                items.append(Item("F", n=s[1], val=None))
        else:
            items.append(Item("V", sym=s))

    def _expr_stmt(self, e, items, returning=False, defining=None):
        e = strip(e)
        if not isnode(e):
            return
        k = e["k"]
        # comma folds / sequences
        if k == "BinaryOperator" and e["op"] == ",":
            self._expr_stmt(e["lhs"], items)
            self._expr_stmt(e["rhs"], items)
            return
        if k == "ParenExpr" or k in EXPLICIT_CASTS:
            self._expr_stmt(e.get("sub") or (e.get("c") or [None])[0], items, returning, defining)
            return
        if k == "CXXFoldExpr":
            raise Unfoldable("unexpanded fold expression at %s" % e.get("loc"))
        # cursor advance
        if k == "CompoundAssignOperator" and e["op"] == "+=" and self.is_cursor(e["lhs"]):
            s = self.sym(e["rhs"])
            if s[0] == "c":
                val = getattr(self, "_pending_hdr", None)
                items.append(Item("F", n=s[1], val=val))
                self._pending_hdr = None
                if self.kind == "decode" and getattr(self, "_pending_read", None) is not None:
                    self.env[self._pending_read] = ("ref", len(items) - 1)
                    self._pending_read = None
            else:
                items.append(Item("V", sym=s))
            return
        if k == "CompoundAssignOperator" and e["op"] == "+=" and self.kind == "size" and var_ref(e["lhs"]) is not None:
            if self.acc is None:
                self.acc = var_ref(e["lhs"])
            if var_ref(e["lhs"]) == self.acc:
                self._add_terms(e["rhs"], items)
                return
        if k == "BinaryOperator" and e["op"] == "=":
            lv = var_ref(e["lhs"])
            calls = [x for x in walk(e["rhs"]) if is_codec_call(x)]
            if calls:
                before = len(items)
                self._expr_stmt(e["rhs"], items)
                if len(items) > before:
                    d = des_of(self.sym(e["lhs"]))
                    if d and items[-1].kind == "SUB" and not items[-1].des:
                        items[-1].des = d
                    if lv is not None and self.kind == "decode":
                        self.env[lv] = ("ref", len(items) - 1)
                return
            if lv is not None:
                new = self.sym(e["rhs"])
                # a clamp to numeric_limits::max keeps the quantity
                if not (new == ("c", -1) and lv in self.env):
                    self.env[lv] = new
            return
        if k == "CXXOperatorCallExpr" and (e.get("callee") or "").endswith("::operator=") and len(e.get("args", [])) == 2:
            calls = [x for x in walk(e["args"][1]) if is_codec_call(x)]
            if calls:
                before = len(items)
                self._expr_stmt(e["args"][1], items)
                if len(items) > before and items[-1].kind == "SUB" and not items[-1].des:
                    items[-1].des = des_of(self.sym(e["args"][0]))
                lv = var_ref(e["args"][0])
                if lv is not None and self.kind == "decode" and len(items) > before:
                    self.env[lv] = ("ref", len(items) - 1)
            return
        if k in ("CXXConstructExpr", "CXXTemporaryObjectExpr") and self.kind == "decode" and e.get("listinit") and \
                sum(1 for a in (e.get("args") or []) if is_codec_call(strip(a, casts=True))) == len(e.get("args") or []) and e.get("args"):
            # `T{Codec<A>::decode_arg(buffer), Codec<B>::decode_arg(buffer), ...}`: the elements of a braced initialiser list are
            # evaluated from left to right (a parenthesised argument list is not: it is left undecided below)
            for i_, a in enumerate(e["args"]):
                before = len(items)
                self._expr_stmt(strip(a, casts=True), items)
                if len(items) > before and items[-1].kind == "SUB" and not items[-1].des:
                    items[-1].des = des_of(("tuple_elem", i_))        # the i-th element of the object being built (as on the encode side)
            return
        if k in ("CXXConstructExpr", "CXXTemporaryObjectExpr") and self.kind == "decode" and not e.get("listinit") and \
                sum(1 for a in (e.get("args") or []) if any(is_codec_call(x) for x in walk(a))) > 1:
            raise Unfoldable("several decode_arg calls as parenthesised constructor arguments (unspecified evaluation order) at %s" % e.get("loc"))
        if k in ("CallExpr", "CXXMemberCallExpr", "CXXOperatorCallExpr", "CXXConstructExpr", "CXXTemporaryObjectExpr"):
            c = e.get("callee") or ""
            cd = codec_of(c)
            fc = FORMAT_CODEC.match(c)
            if cd:
                t, fnk = norm_type(cd[0]), cd[1]
                if fnk == "compute_encoded_size":
                    if returning or self.kind == "size":
                        items.append(Item("SUB", t=t, des=self.designator(e["args"][1]), val=self.sym(e["args"][1])))
                    return
                if fnk == "encode":
                    if not self.is_cursor(e["args"][0]):
                        raise Unfoldable("Codec<%s>::encode on a different cursor at %s" % (t, e.get("loc")))
                    items.append(Item("SUB", t=t, des=self.designator(e["args"][3]), val=self.sym(e["args"][3])))
                    return
                if fnk in ("decode_arg", "decode_and_store_arg"):
                    if not self.is_cursor(e["args"][0]):
                        raise Unfoldable("Codec<%s>::decode_arg on a different cursor at %s" % (t, e.get("loc")))
                    items.append(Item("SUB", t=t, des=None, val=None))
                    return
            if fc:
                items.append(Item("SUBF", t=fc.group(1) + "<" + norm_type(fc.group(2)) + ">", des=None, val=None))
                return
            sc = short(c)
            if re.search(r"InlinedVector::push_back$", sc) and not returning:
                t = self.sym(e)
                self.last_stmt_push = t[1]
                return
            if re.search(r"InlinedVector::assign$", sc) and getattr(self, "last_stmt_push", None) is not None:
                self.pushes[self.last_stmt_push] = self.sym(e["args"][1])
                return
            if sc in ("memcpy", "std::memcpy"):
                dst, src, n = e["args"][0], e["args"][1], e["args"][2]
                if self.kind == "encode" and self.is_cursor(dst):
                    s = strip(src, casts=True)
                    if isnode(s) and s["k"] == "UnaryOperator" and s["op"] == "&":
                        self._pending_hdr = self.sym(s["sub"])
                    else:
                        self._pending_hdr = None
                if self.kind == "decode" and self.is_cursor(src):
                    d = strip(dst, casts=True)
                    if isnode(d) and d["k"] == "UnaryOperator" and d["op"] == "&":
                        self._pending_read = var_ref(d["sub"])
                return
            if sc in MEMBER_HELPERS:
                # documented helpers for user-defined codecs: one Codec<remove_cvref_t<Ti>> call per member, in pack order, on the
                # same cursor (that this is what the helper bodies do is checked separately: C04.R9a)
                hk, first = MEMBER_HELPERS[sc]
                if hk != self.kind:
                    raise Unfoldable("%s used in a %s function at %s" % (sc, self.kind, e.get("loc")))
                if hk in ("encode", "decode") and not self.is_cursor(e["args"][0]):
                    raise Unfoldable("%s on a different cursor at %s" % (sc, e.get("loc")))
                for a in e["args"][first:]:
                    ty = (strip(a, casts=True) or {}).get("ty") if isnode(strip(a, casts=True)) else None
                    if not ty:
                        raise Unfoldable("%s: member argument without a type at %s" % (sc, e.get("loc")))
                    t = norm_type(remove_cvref_txt(ty))
                    if hk == "decode":
                        items.append(Item("SUB", t=t, des=des_of(self.sym(a)), val=None))
                    else:
                        items.append(Item("SUB", t=t, des=self.designator(a), val=self.sym(a)))
                return
            if sc == "std::accumulate" and self.kind == "size" and len(e.get("args") or []) == 4:
                # `acc = std::accumulate(c.begin(), c.end(), acc, [&](size_t a, T const& elem) { return a + <size of elem>; })`: one
                # iteration per element of c, in order (accumulate is a left fold), the lambda's first parameter is the running sum
                a0, a1, a2, a3 = e["args"]
                def range_of(x, which):
                    for y in walk(x):
                        if is_call(y, r"::c?%s$" % which) and call_obj(y) is not None:
                            return call_obj(y)
                        if is_call(y, r"^std::c?%s$" % which) and y.get("args"):
                            return y["args"][0]
                    return None
                rb, re_ = range_of(a0, "begin"), range_of(a1, "end")
                lam = [x for x in walk(a3) if x["k"] == "LambdaExpr"]
                specs = [l for l in self.lambdas.get(self.fn.name, []) if lam and l.name.split("#")[0].endswith(lam[0]["lambda"])]
                if rb is not None and re_ is not None and self.sym(rb) == self.sym(re_) and var_ref(a2) == self.acc and self.acc is not None and \
                        len(specs) == 1 and len(specs[0].rec.get("params") or []) == 2:
                    sp = specs[0]
                    sub = Folder(sp, "size", self.facts, self.lambdas)
                    sub.env = dict(self.env)
                    sub.cursor = self.cursor
                    sub.capture_mode = True
                    sub.env[sp.rec["params"][1]["did"]] = ("elem", self.sym(rb))
                    sub.acc = sp.rec["params"][0]["did"]
                    sub.acc_is_running_sum = True
                    body_items = []
                    sub.fn = sp
                    sub._stmt(sp.body, body_items)
                    self.pops += sub.pops
                    self.pushes += sub.pushes
                    if body_items:
                        items.append(Item("REP", count=("size", self.sym(rb)), body=body_items))
                    return
            if re.match(r"^std::(accumulate|for_each|for_each_n|transform|reduce|transform_reduce|inner_product|copy|copy_n|copy_if|generate|generate_n|fill_n)$", sc) and \
                    any(x["k"] == "LambdaExpr" or is_call(x, r"Codec<") for a_ in (e.get("args") or []) for x in walk(a_)):
                # a standard algorithm driving codec calls through a callable: the iteration is inside the library template, not in a loop
                # the folder can summarise — not decided, never guessed
                raise Unfoldable("%s with a callable that touches the codec at %s" % (sc, e.get("loc")))
            if sc == "std::apply" or sc.endswith("::apply"):
                lam = None
                for x in walk(e["args"][0]):
                    if x["k"] == "LambdaExpr":
                        lam = x
                if lam is None:
                    raise Unfoldable("std::apply without an in-place lambda at %s" % e.get("loc"))
                specs = [l for l in self.lambdas.get(self.fn.name, []) if l.name.split("#")[0].endswith(lam["lambda"])]
                if len(specs) != 1:
                    raise Unfoldable("generic lambda at %s has %d instantiation(s)" % (e.get("loc"), len(specs)))
                sub = Folder(specs[0], self.kind, self.facts, self.lambdas)
                # the lambda works on the same cursor / accumulator: find them among its captures by type
                sub.cursor = self.cursor
                sub.acc = self.acc
                sub.env = dict(self.env)
                sub.capture_mode = True
                for i, p in enumerate(specs[0].rec.get("params") or []):
                    sub.env[p["did"]] = ("tuple_elem", i)
                sub_items = sub.fold_lambda(specs[0])
                self.pops += sub.pops
                self.pushes += sub.pushes
                items.extend(sub_items)
                return
            if returning and self.kind == "size":
                self._add_terms(e, items)
                return
            # calls whose arguments contain nested codec calls (emplace_back(Codec<T>::decode_arg(buffer)), insert(...), push_back(...))
            inner = [x for x in walk(e) if x is not e and x["k"] in ("CallExpr", "CXXMemberCallExpr") and (codec_of(x.get("callee")) or FORMAT_CODEC.match(x.get("callee") or ""))]
            for x in inner:
                if not any((y is not x) and (y in inner) and any(z is x for z in walk(y)) for y in inner):
                    self._expr_stmt(x, items)
            return
        if returning and self.kind == "size":
            self._add_terms(e, items)
            return
        # anything else: look for nested codec calls (e.g. in constructor arguments)
        inner = [x for x in walk(e) if is_codec_call(x)]
        for x in inner:
            self._expr_stmt(x, items)

    def fold_lambda(self, lam):
        # captured cursor / accumulator are referenced through the closure: map by name
        items = []
        names = {}
        for n in lam.walk():
            if n["k"] == "DeclRefExpr" and n.get("dk") in ("Var", "ParmVar"):
                names.setdefault(n["name"], n["did"])
        for n in self.fn.walk():
            pass
        # cursor: any DeclRef typed std::byte*& named like the parent's cursor
        for n in lam.walk():
            if n["k"] == "DeclRefExpr" and "std::byte *" in n.get("ty", "") and n.get("dk") in ("Var", "ParmVar"):
                self.cursor = n["did"]
            if n["k"] == "DeclRefExpr" and self.kind == "size" and n.get("ty", "") in ("size_t", "unsigned long") and n.get("dk") == "Var":
                self.acc = n["did"]
        self.fn = lam
        self._stmt(lam.body, items)
        return items

    def fold(self):
        if self.kind == "size":
            for n in self.fn.walk():
                if n["k"] == "ReturnStmt" and var_ref(n.get("val")) is not None and not any(a["k"] == "LambdaExpr" for a in self.fn.ancestors(n)):
                    self.acc = var_ref(n.get("val"))
        items = self.fold_body(self.fn.body)
        return items


def des_of(s):
    """designator of a symbolic value: first/second member, tuple element index, dereferenced optional, loop element"""
    if not isinstance(s, tuple):
        return None
    if s[0] == "member" and s[2] in ("first", "second"):
        return s[2]
    if s[0] == "tuple_elem":
        return "#%d" % s[1]
    return None


# ----------------------------------------------------------------------------- flattening / comparison
def subst(term, argval):
    """replace the callee's own ('arg',) by the value it was called with"""
    if term == ("arg",):
        return argval if argval is not None else ("arg",)
    if isinstance(term, tuple):
        return tuple(subst(x, argval) if isinstance(x, tuple) else x for x in term)
    return term


class Flat:
    """flattened primitive item: kind F/V/REP/OPT, with designator path"""

    def __init__(self, kind, **kw):
        self.kind = kind
        self.__dict__.update(kw)


def flatten(items, kind, layouts, argval=None, depth=0, des_path=(), origin=None):
    """expand nested codecs. returns (flat list, map original index -> flat index of the item's first primitive)"""
    if depth > 12:
        raise Unfoldable("codec nesting deeper than 12")
    out = []
    index = {}
    for i, it in enumerate(items):
        index[i] = len(out)
        if it.kind == "F":
            out.append(Flat("F", n=it.n, val=subst(it.val, argval) if it.val is not None else None, des=des_path, origin=origin))
        elif it.kind == "V":
            out.append(Flat("V", sym=subst(it.sym, argval), des=des_path, origin=origin))
        elif it.kind in ("SUB", "SUBF"):
            key = it.t
            if key not in layouts or kind not in layouts[key]:
                raise Unfoldable("no %s layout for nested Codec<%s>" % (kind, key))
            inner_items = layouts[key][kind]
            val = ("at", origin, subst(it.val, argval)) if getattr(it, "val", None) is not None else None
            sub, sub_index = flatten(inner_items, kind, layouts, val, depth + 1, des_path + ((it.des,) if getattr(it, "des", None) else ()), origin=key)
            # renumber refs of the nested layout relative to this level
            base = len(out)
            for f in sub:
                shift_refs(f, sub_index, base)
            out.extend(sub)
        elif it.kind == "REP":
            body, bindex = flatten(it.body, kind, layouts, elem_of(argval, it), depth + 1, des_path, origin=origin)
            mark_top_refs(body, bindex)
            out.append(Flat("REP", count=subst(it.count, argval), body=body, des=des_path, bindex=bindex, origin=origin))
        elif it.kind == "OPT":
            b1, i1 = flatten(it.body, kind, layouts, opt_val(argval), depth + 1, des_path, origin=origin)
            b2, i2 = flatten(it.orelse, kind, layouts, argval, depth + 1, des_path, origin=origin)
            mark_top_refs(b1, i1)
            mark_top_refs(b2, i2)
            out.append(Flat("OPT", cond=subst(it.cond, argval), body=b1, orelse=b2, des=des_path, origin=origin))
    return out, index


def elem_of(argval, rep):
    return None


def opt_val(argval):
    return None


def shift_refs(f, sub_index, base):
    def sh(t):
        if isinstance(t, tuple):
            if t and t[0] == "ref" and not (len(t) > 2 and t[2] == "abs"):
                return ("ref", base + sub_index.get(t[1], t[1]), "abs")
            return tuple(sh(x) if isinstance(x, tuple) else x for x in t)
        return t
    if f.kind == "V":
        f.sym = sh(f.sym)
    if f.kind == "F" and f.val is not None:
        f.val = sh(f.val)
    if f.kind == "REP":
        f.count = sh(f.count)
    if f.kind == "OPT":
        f.cond = sh(f.cond)


def mark_top_refs(flat, index):
    """refs produced at this level point at original item indices: convert to flat indices"""
    for f in flat:
        def sh(t):
            if isinstance(t, tuple):
                if t and t[0] == "ref" and len(t) == 2:
                    return ("ref", index.get(t[1], t[1]), "abs")
                return tuple(sh(x) if isinstance(x, tuple) else x for x in t)
            return t
        if f.kind == "V":
            f.sym = sh(f.sym)
        if f.kind == "REP":
            f.count = sh(f.count)
        if f.kind == "OPT":
            f.cond = sh(f.cond)


def canon_term(t, pushes, enc_flat, origin=None):
    """canonical text of a symbolic quantity. pushes: the size pass's pushed quantities (cache discipline);
    enc_flat: the encode side's flat items at this level (to resolve decode-side refs by value flow)"""
    if not isinstance(t, tuple):
        return str(t)
    if t[0] == "at":
        return canon_term(t[2], pushes, enc_flat, t[1])
    if t[0] == "push":
        own = (pushes or {}).get(origin, [])
        return canon_term(own[t[1]] if t[1] < len(own) else t[2], pushes, enc_flat, origin)
    if t[0] == "pop":
        own = (pushes or {}).get(origin, [])
        if t[1] >= len(own):
            return "cache#%d(no matching push in the size pass)" % t[1]
        return canon_term(own[t[1]], pushes, enc_flat, origin)
    if t[0] == "ref":
        k = t[1]
        if enc_flat is None or k >= len(enc_flat):
            return "ref#%d(unresolved)" % k
        e = enc_flat[k]
        if e.kind == "F" and e.val is not None:
            return canon_term(e.val, pushes, enc_flat, e.origin)
        return "ref#%d(no value stored there)" % k
    if t[0] == "c":
        return str(t[1])
    if t[0] in ("size", "has"):
        # which object is meant is given by the position (designator path, nesting); the callee's own name for it is not comparable
        return t[0] + "(.)"
    if t[0] in ("mul", "add"):
        return t[0] + "(" + ",".join(sorted(canon_term(x, pushes, enc_flat, origin) for x in t[1:])) + ")"
    return t[0] + ("(" + ",".join(canon_term(x, pushes, enc_flat, origin) if isinstance(x, tuple) else str(x) for x in t[1:]) + ")" if len(t) > 1 else "")


def all_fixed(flat):
    return bool(flat) and all(f.kind == "F" for f in flat)


def canon(flat, pushes, enc_flat, collapse=False, unordered=False):
    parts = []
    pending_f = 0
    pending_des = None

    def flush():
        nonlocal pending_f, pending_des
        if pending_f:
            parts.append("%sF%d" % (des_txt(pending_des), pending_f))
        pending_f = 0
        pending_des = None
    for i, f in enumerate(flat):
        if f.kind == "F":
            if pending_f and pending_des != f.des:
                flush()
            pending_f += f.n
            pending_des = f.des
            continue
        flush()
        if f.kind == "V":
            parts.append("%sV[%s]" % (des_txt(f.des), canon_term(f.sym, pushes, enc_flat, f.origin)))
        elif f.kind == "REP":
            body_enc = None
            if enc_flat is not None and i < len(enc_flat) and enc_flat[i].kind == "REP":
                body_enc = enc_flat[i].body
            inner = canon(f.body, pushes, body_enc if body_enc is not None else None, collapse, unordered)
            cnt = canon_term(f.count, pushes, enc_flat, f.origin)
            if collapse and all_fixed(f.body):
                inner = "F%d" % sum(x.n for x in f.body)
            m = re.match(r"^(?:@[^ ]*:)?F(\d+)$", inner)
            if m and re.match(r"^\d+$", cnt):
                pending_f += int(m.group(1)) * int(cnt)
                pending_des = f.des
                continue
            if m:
                parts.append("%sV[mul(%s,%s)]" % (des_txt(f.des), *sorted([m.group(1), cnt])))
            else:
                parts.append("%sREP[%s]{%s}" % (des_txt(f.des), cnt, inner))
        elif f.kind == "OPT":
            e1 = e2 = None
            if enc_flat is not None and i < len(enc_flat) and enc_flat[i].kind == "OPT":
                e1, e2 = enc_flat[i].body, enc_flat[i].orelse
            parts.append("%sOPT[%s]{%s}{%s}" % (des_txt(f.des), canon_term(f.cond, pushes, enc_flat, f.origin), canon(f.body, pushes, e1, collapse, unordered), canon(f.orelse, pushes, e2, collapse, unordered)))
    flush()
    if unordered:
        # a size is a sum: the order of its summands is irrelevant, fixed parts add up
        fixed = 0
        rest = []
        for p_ in parts:
            m_ = re.match(r"^(?:@[^ ]*:)?F(\d+)$", p_)
            if m_:
                fixed += int(m_.group(1))
            else:
                rest.append(re.sub(r"^@[^ ]*:", "", p_))
        parts = (["F%d" % fixed] if fixed else []) + sorted(rest)
    return " ".join(parts)


def des_txt(d):
    return ("@" + ".".join(x for x in d if x) + ":") if d and any(d) else ""
