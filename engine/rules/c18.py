"""C18 — backtrace: held back, then most recent N, in order, once (DESIGN §4 C18)."""
import re
from qlib import (AnalysisBroken, strip, isnode, walk, is_call, norm_cmp, var_ref, is_null, const_val, short, call_obj,
                  expr_key, field_name, is_this_field, atomic_op)
from rules.common import (core_and_neg, tnode, other, cpos, npos, branches_on_call, in_subtree, need_some, straight_after)
from rules.c02 import cmp_sides

EXPLANATION = ("Backtrace ring. R1 (ring invariant 'size < capacity => _index == 0'): every statement of BacktraceStorage that can make "
               "size < capacity newly true (a size-decreasing call on the stored-events vector, a write to _capacity) is accompanied on "
               "every path by _index = 0 with no later different write — process() reads from _index and store() appends while size < "
               "capacity, so the invariant is necessary for 'oldest first' and for staying in bounds (this rule found the pinned "
               "tree's defect). R2 routing: a Backtrace-level statement is never dispatched to the sinks when logged; it is copied "
               "(events are reused) and stored; for other statements dispatch precedes the flush-level test and the replay; "
               "FlushBacktrace replays; the replay visits size() events starting at _index with wrap, invokes the callback for each, "
               "and clears afterwards on every path. R3: store() appends while size < capacity, otherwise overwrites slot _index and "
               "advances it with wrap at capacity - 1."
               " R4d: the data() pointer of an event's formatted text never travels without its length (the buffer is reused and has no terminator)."
               " R5t (= C03.R4t): copy_to, the ring's way of storing a statement, carries every member across, the text included."
               ' R2k: each replayed statement is dispatched under its own catch-all that does not rethrow, so a throwing sink loses that statement only and the ring is cleared after the replay.')
NOT_DECIDED = ("'exactly min(capacity, stored)' as a count over all histories and the interleaving of several threads/loggers "
               "(behavioural); capacity 0 (noted).")
ASSUMPTIONS = ["BacktraceStorage is used by the backend thread only"]
BW = "quill::detail::BackendWorker::"
BS = "quill::detail::BacktraceStorage::"
SHRINKERS = r"std::vector<.*>::(clear|erase|pop_back|resize|shrink_to_fit|assign|swap|operator=)$"


def index_writes(f):
    zero, otherw = [], []
    for n in f.walk():
        if n["k"] in ("BinaryOperator", "CompoundAssignOperator") and n["op"] in ("=", "+=", "-=") and is_this_field(n["lhs"], "_index"):
            (zero if (n["op"] == "=" and const_val(n["rhs"]) == 0) else otherw).append(n)
        if n["k"] == "UnaryOperator" and n["op"] in ("++", "--") and is_this_field(n["sub"], "_index"):
            otherw.append(n)
    return zero, otherw


def run(ctx):
    configs = ["A"] if ctx.tier == "quick" else ["A", "B"]
    for cfg in configs:
        facts = ctx.facts("core.cpp", cfg)
        r1(ctx, facts, cfg)
        r2(ctx, facts, cfg)
        r3(ctx, facts, cfg)
        r4(ctx, facts, cfg)
        r4_buffer_is_not_a_c_string(ctx, facts, cfg)
        # what is held back is the statement: copy_to — the ring's way of storing — carries every member across, the text included (= C03.R4t)
        from rules import c03
        from rules.c09 import Renamed
        c03.transit_event_transfer(Renamed(ctx, "C03.R4t", "C18.R5t"), facts, cfg, "C03.R4")


def r1(ctx, facts, cfg):
    crec = facts.cls("quill::detail::BacktraceStorage", cfg)
    if not crec:
        raise AnalysisBroken("BacktraceStorage not found")
    fnames = {x["name"] for x in crec["fields"]}
    for need in ("_index", "_capacity", "_stored_events"):
        if need not in fnames:
            raise AnalysisBroken("BacktraceStorage::%s not found" % need)
    meths = [f for f in facts.fns if f.config == cfg and f.cls == "quill::detail::BacktraceStorage" and not f.rec.get("ctor")]
    n = 0
    for f in meths:
        g = f.g
        shr = [c for c in f.calls(SHRINKERS) if is_this_field(call_obj(c), "_stored_events")]
        shr += [x for x in f.walk() if x["k"] in ("BinaryOperator", "CompoundAssignOperator") and x["op"].endswith("=") and
                x["op"] not in ("==", "!=", "<=", ">=") and is_this_field(x["lhs"], "_capacity")]
        zero, otherw = index_writes(f)
        zp, wp = npos(f, zero), npos(f, otherw)
        for s in shr:
            n += 1
            sp = g.positions(s)
            after = bool(zp) and not g.exists_path(sp, [g.exit_node], avoid_nodes=zp)
            # no different write after the last reset on the way out
            after = after and not any(w in g.reach(sp) and g.exists_path([w], [g.exit_node], avoid_nodes=zp) for w in wp)
            before = bool(zp) and not g.exists_path([g.entry_node], sp, avoid_nodes=zp) and \
                not any(w in g.reach(zp) and g.exists_path([w], sp) for w in wp) and \
                not any(w in g.reach(sp) for w in wp)
            what = short(s["callee"]).split("::")[-1] + "()" if is_call(s) else "write to _capacity"
            ctx.ob("C18.R1", "BacktraceStorage::%s:%s-resets-index" % (f.base, what.replace("()", "")), after or before,
                   "%s can make size < capacity true; every path through it sets _index = 0 (ring invariant: a not-full ring starts at "
                   "slot 0)" % what, loc=s["loc"], fn=f)
    ctx.floor("C18.R1", "size-decreasing statements in BacktraceStorage", n, 3)


def r2(ctx, facts, cfg):
    f = facts.need(BW + "_process_transit_event", cfg)[0]
    g = f.g
    evp = f.rec["params"][1]["did"]
    disp = [c for c in f.calls(r"::_dispatch_transit_event_to_sinks$")]
    dpos = npos(f, disp)
    # branch on log_level() vs Backtrace
    bt = []
    for bid, b in g.blocks.items():
        c = g.term_cond(bid)
        if c is None:
            continue
        nc = norm_cmp(c)
        if nc and nc[0] in ("==", "!=") and any(is_call(x, r"TransitEvent::log_level$") for x in walk(c)) and \
                any(x["k"] == "DeclRefExpr" and x.get("name") == "quill::LogLevel::Backtrace" for x in walk(c)):
            bt.append((bid, "T" if nc[0] == "==" else "F"))  # label of 'is backtrace'
    if not bt or not disp:
        raise AnalysisBroken("_process_transit_event: backtrace-level test or dispatch call not found")
    ok = not g.exists_path([g.entry_node], dpos, avoid_edges=[(b, other(l)) for (b, l) in bt])
    ctx.ob("C18.R2a", "_process_transit_event:backtrace-not-dispatched", ok,
           "a statement is handed to the sinks directly only on the 'not Backtrace level' outcome: LOG_BACKTRACE statements are not "
           "written when logged", fn=f)
    st = need_some(f.calls(BS.replace("::", "::") + "store$"), "BacktraceStorage::store call")
    spos = npos(f, st)
    ok = not g.exists_path([g.entry_node], spos, avoid_edges=bt)
    ctx.ob("C18.R2b", "_process_transit_event:only-backtrace-stored", ok,
           "only Backtrace-level statements are stored in the ring", fn=f)
    # copied, not moved
    copies = f.calls(r"TransitEvent::copy_to$")
    ok = False
    for s in st:
        locals_in_arg = [x.get("did") for x in walk(s["args"][0]) if x["k"] == "DeclRefExpr" and x.get("dk") == "Var"]
        refs_param = any(x["k"] == "DeclRefExpr" and x.get("did") == evp for x in walk(s["args"][0]))
        for c in copies:
            if var_ref(call_obj(c)) == evp and var_ref(c["args"][0]) in locals_in_arg and not refs_param and \
                    all(g.dominates(g.positions(c), p) for p in g.positions(s)):
                ok = True
    ctx.ob("C18.R2c", "_process_transit_event:stored-event-is-a-copy", ok,
           "what is stored is a copy made with copy_to (transit events are reused by the buffer; moving would corrupt the next statement)", fn=f)
    # replay after dispatch, on level >= flush level; FlushBacktrace replays
    proc = need_some(f.calls(BS + "process$"), "BacktraceStorage::process calls")
    ctx.floor("C18.R2", "replay call sites", len(proc), 2)
    lvl = []
    for bid, b in g.blocks.items():
        c = g.term_cond(bid)
        cs = cmp_sides(c) if c is not None else None
        if cs and any(x["k"] == "MemberExpr" and x.get("mname") == "backtrace_flush_level" for x in walk(cs[1])) and \
                any(is_call(x, r"TransitEvent::log_level$") for x in walk(cs[2])):
            lvl.append((bid, cs[0]))
    first = None
    for p in proc:
        pp = g.positions(p)
        if any(g.exists_path(dpos, [q]) for q in pp):
            first = p
    ok = first is not None and bool(lvl) and lvl[0][1] == "<=" and \
        all(g.dominates(dpos, q) for q in g.positions(first)) and \
        not g.exists_path([g.entry_node], g.positions(first), avoid_edges=[(lvl[0][0], "T")])
    ctx.ob("C18.R2d", "_process_transit_event:replay-after-trigger", ok,
           "the stored statements are replayed immediately after the triggering statement was dispatched, exactly when its level is at or "
           "above the flush level (flush_level <= level)", fn=f)
    from rules.common import enum_edges, label_matches
    fb = enum_edges(g, r"MacroMetadata::event$", "FlushBacktrace")
    def _after(edge):
        st = [y for (y, l2) in g.succ.get(tnode(g, edge[0]), ()) if label_matches(l2, edge[1])]
        return set(st) | set(g.reach(st))
    ok = bool(fb) and any(any(q in _after(fb[0]) for q in g.positions(p)) and
                          not g.exists_path(dpos, g.positions(p)) for p in proc)
    ctx.ob("C18.R2e", "_process_transit_event:flush_backtrace-replays", ok, "a FlushBacktrace event replays the ring", fn=f)
    # replay callbacks dispatch to the sinks
    lams = [x for x in facts.fns if x.config == cfg and x.rec.get("parent") == f.name]
    from rules.common import try_stack, has_catch_all

    def dispatch_sites(fn_, depth=0):
        """[(function, call)] of the calls of the normal dispatch made by fn_, directly or through one member function of the worker"""
        out = [(fn_, c) for c in fn_.calls(r"::_dispatch_transit_event_to_sinks$")]
        if not out and depth == 0:
            for c in fn_.calls(r"BackendWorker::_\w+$"):
                for h in facts.fn_re("^" + re.escape(short(c["callee"])) + "$", cfg)[:1]:
                    out += dispatch_sites(h, 1)
        return out
    sites = {l.name: dispatch_sites(l) for l in lams}
    ok = len(lams) >= 2 and all(sites[l.name] for l in lams)
    ctx.ob("C18.R2f", "_process_transit_event:replay-callback-dispatches", ok,
           "every replay callback writes the stored statement through the normal dispatch, directly or through a member function of the "
           "worker (%d callback(s))" % len(lams), fn=f)
    # R2k: 'once each' also when a sink throws: the ring forgets what it holds only after its loop over the stored statements, so an
    # exception that leaves the callback ends the replay early (the rest is not written) and skips the forgetting (everything is written
    # again by the next flush): every dispatch made for a replayed statement is enclosed by a catch-all that does not rethrow
    contained = bool(lams)
    for l in lams:
        for (hf, c) in sites[l.name]:
            tries = try_stack(hf, c)
            if not any(has_catch_all(t) and not any(x["k"] == "CXXThrowExpr" for hd in (t.get("handlers") or []) for x in walk(hd)) for t in tries):
                contained = False
    ctx.ob("C18.R2k", "_process_transit_event:replayed-statement-contained", contained and ok,
           "each replayed statement is dispatched under its own catch-all: a sink that throws loses that statement only, the replay goes on "
           "and the ring is cleared after every statement had its turn (nothing left out, nothing written again by the next flush)", fn=f)
    # R2i: event routing: each arm is entered exactly on its own event
    ev = {}
    en_ = facts.enum("quill::MacroMetadata::Event", cfg)
    if not en_:
        raise AnalysisBroken("MacroMetadata::Event not found")
    for (ename, _v) in en_["enumerators"]:
        ee = enum_edges(g, r"MacroMetadata::event$", ename)
        if ee:
            ev[ename] = ee
    setcap = npos(f, f.calls(BS + "set_capacity$"))
    proc_trigger = [q for p_ in proc for q in g.positions(p_) if g.exists_path(dpos, [q])]
    proc_flush = [q for p_ in proc for q in g.positions(p_) if not g.exists_path(dpos, [q])]
    def only_on(positions, event):
        return bool(positions) and event in ev and not g.exists_path([g.entry_node], positions, avoid_edges=ev[event])
    ok = only_on(dpos + spos + proc_trigger, "Log") and only_on(setcap, "InitBacktrace") and only_on(proc_flush, "FlushBacktrace")
    ctx.ob("C18.R2i", "_process_transit_event:event-routing", ok,
           "dispatch, store and the triggered replay happen only for Event::Log, the capacity is set only for Event::InitBacktrace, the "
           "unconditional replay only for Event::FlushBacktrace (event tests found: %s)" % sorted(ev), fn=f)
    # R2j: the ring is used only when it exists; a Backtrace statement without a ring is an error, not silently dropped; InitBacktrace
    # creates the ring exactly when there is none
    st_tests = []
    for bid, b in g.blocks.items():
        c = g.term_cond(bid)
        if c is None:
            continue
        core, neg = core_and_neg(c)
        cs_ = strip(core, casts=True)
        m = [x for x in walk(cs_) if x["k"] == "MemberExpr" and x.get("mname") == "backtrace_storage"]
        if m and (cs_["k"] == "MemberExpr" or is_call(cs_, r"shared_ptr<.*>::operator bool$|__shared_ptr<.*>::operator bool$")) and not any(is_call(x, BS + r"\w+$") for x in walk(cs_)):
            st_tests.append((bid, "F" if neg else "T"))  # label of 'ring exists'
    uses = spos + [q for p_ in proc for q in g.positions(p_)]
    throws = g.pos_of(lambda n: isnode(n) and n.get("k") == "CXXThrowExpr")
    ok_exist = bool(st_tests) and not g.exists_path([g.entry_node], uses, avoid_edges=st_tests)
    # the store's own test: 'no ring' ends in a throw
    ok_throw = False
    for (b, l) in st_tests:
        if any(g.exists_path([tnode(g, b)], [q], avoid_edges=[(b, other(l))]) for q in spos):
            ok_throw = any(p in throws for p in straight_after(g, b, other(l)))
    mk = [n for n in f.walk() if ((n["k"] == "BinaryOperator" and n["op"] == "=") or (n["k"] == "CXXOperatorCallExpr" and n.get("callee", "").endswith("operator="))) and
          any(x["k"] == "MemberExpr" and x.get("mname") == "backtrace_storage" for x in walk(n.get("lhs") if n["k"] == "BinaryOperator" else n["args"][0])) and
          any(is_call(x, r"^std::make_shared<") for x in walk(n.get("rhs") if n["k"] == "BinaryOperator" else n["args"][1]))]
    mkp = npos(f, mk)
    ok_make = bool(mkp) and bool(setcap) and not g.exists_path([g.entry_node], mkp, avoid_edges=[(b, other(l)) for (b, l) in st_tests]) and \
        not g.exists_path([g.entry_node], setcap, avoid_nodes=mkp, avoid_edges=[(b, l) for (b, l) in st_tests if
                                                                                 any(g.exists_path([tnode(g, b)], [q]) for q in mkp)])
    ctx.ob("C18.R2j", "_process_transit_event:ring-exists-when-used", ok_exist and ok_throw and ok_make,
           "store and replay are reached only on the 'ring exists' outcome (%s); a Backtrace statement of a logger without a ring ends "
           "in a throw, it is not silently dropped (%s); InitBacktrace creates the ring exactly when there is none and sets the capacity "
           "of an existing ring on every path (%s)" % (ok_exist, ok_throw, ok_make), fn=f)
    # process(): loop of size() iterations from _index with wrap, callback each, clear afterwards
    p = facts.need(BS + "process", cfg)[0]
    pg = p.g
    inits = p.var_inits()
    cb = [c for c in p.calls() if c["k"] == "CXXOperatorCallExpr" and var_ref(c["args"][0]) == p.rec["params"][0]["did"]]
    if not cb:
        raise AnalysisBroken("BacktraceStorage::process: callback invocation not found")
    c0 = cb[0]
    idxv = None
    # the element handed to the callback: `_stored_events[index]` written in the arguments, or a local reference bound to it
    srcs = [c0["args"][1]]
    for x in walk(c0["args"][1]):
        if x["k"] == "DeclRefExpr" and x.get("dk") == "Var" and isnode(inits.get(x.get("did"))) and not p.assignments_to_var(x["did"]):
            srcs.append(inits[x["did"]])
    for src in srcs:
        for x in walk(src):
            if is_call(x, r"std::vector<.*>::operator\[\]$") and is_this_field(call_obj(x), "_stored_events"):
                idxv = var_ref(strip(x["args"][1], casts=True))
    start_ok = idxv is not None and idxv in inits and is_this_field(strip(inits[idxv], casts=True), "_index")
    loops = [a for a in p.ancestors(c0) if a["k"] in ("ForStmt", "WhileStmt")]
    count_ok = False
    if loops and loops[0]["k"] == "ForStmt":
        lp = loops[0]
        init = lp.get("init")
        iv = init["decls"][0]["did"] if isnode(init) and init.get("decls") else None
        cs = cmp_sides(lp.get("cond")) if lp.get("cond") else None
        inc = strip(lp.get("inc"))
        count_ok = iv is not None and const_val(init["decls"][0].get("init")) == 0 and cs is not None and cs[0] == "<" and var_ref(cs[1]) == iv and \
            any(is_call(x, r"std::vector<.*>::size$") and is_this_field(call_obj(x), "_stored_events") for x in walk(cs[2])) and \
            isnode(inc) and inc["k"] == "UnaryOperator" and inc["op"] == "++" and var_ref(inc["sub"]) == iv and \
            not [x for x in walk(lp.get("body")) if x["k"] in ("BreakStmt", "ReturnStmt", "ContinueStmt")]
    # wrap: index < size()-1 ? index+1 : 0
    wrap_ok = False
    for bid, b in pg.blocks.items():
        c = pg.term_cond(bid)
        cs = cmp_sides(c) if c is not None else None
        if cs and cs[0] == "<" and var_ref(cs[1]) == idxv and idxv is not None:
            lim = strip(cs[2], casts=True)
            if isnode(lim) and lim["k"] == "BinaryOperator" and lim["op"] == "-" and const_val(lim["rhs"]) == 1 and \
                    any(is_call(x, r"std::vector<.*>::size$") for x in walk(lim["lhs"])):
                t_nodes = [pg.node_ast(q) for q in straight_after(pg, bid, "T")]
                f_nodes = [pg.node_ast(q) for q in straight_after(pg, bid, "F")]
                inc1 = any(isnode(x) and ((x["k"] == "CompoundAssignOperator" and x["op"] == "+=" and var_ref(x["lhs"]) == idxv and const_val(x["rhs"]) == 1) or
                                          (x["k"] == "UnaryOperator" and x["op"] == "++" and var_ref(x["sub"]) == idxv)) for x in t_nodes)
                zero = any(isnode(x) and x["k"] == "BinaryOperator" and x["op"] == "=" and var_ref(x["lhs"]) == idxv and const_val(x["rhs"]) == 0 for x in f_nodes)
                wrap_ok = inc1 and zero
    ctx.ob("C18.R2g", "BacktraceStorage::process:oldest-first", start_ok and count_ok and wrap_ok,
           "the replay starts at _index, visits size() stored statements, advances with wrap at size()-1 and invokes the callback for each "
           "(start: %s, count: %s, wrap: %s)" % (start_ok, count_ok, wrap_ok), fn=p)
    clr = npos(p, [c for c in p.calls(r"std::vector<.*>::clear$") if is_this_field(call_obj(c), "_stored_events")])
    cbp = npos(p, cb)
    ok = bool(clr) and not pg.exists_path([pg.entry_node], [pg.exit_node], avoid_nodes=clr) and not pg.exists_path(clr, cbp)
    ctx.ob("C18.R2h", "BacktraceStorage::process:forgotten-after-replay", ok,
           "the ring is cleared on every path after the replay (each statement is replayed once)", fn=p)


def r3(ctx, facts, cfg):
    s = facts.need(BS + "store", cfg)[0]
    g = s.g
    # append arm under size() < _capacity
    grow = []
    for bid, b in g.blocks.items():
        c = g.term_cond(bid)
        cs = cmp_sides(c) if c is not None else None
        if cs and is_this_field(strip(cs[2], casts=True), "_capacity") and any(is_call(x, r"std::vector<.*>::size$") for x in walk(cs[1])):
            grow.append((bid, cs[0]))
    app = npos(s, [c for c in s.calls(r"std::vector<.*>::(emplace_back|push_back)") if is_this_field(call_obj(c), "_stored_events")])
    ok = bool(grow) and grow[0][1] == "<" and bool(app) and not g.exists_path([g.entry_node], app, avoid_edges=[(grow[0][0], "T")])
    ctx.ob("C18.R3a", "BacktraceStorage::store:append-while-not-full", ok,
           "a statement is appended exactly while size() < capacity", fn=s)
    # overwrite arm: slot _index written, then _index advanced with wrap at capacity-1
    slot = [c for c in s.calls(r"std::vector<.*>::operator\[\]$") if is_this_field(call_obj(c), "_stored_events")]
    slot_ok = bool(slot) and all(is_this_field(strip(c["args"][1], casts=True), "_index") for c in slot)
    wrap_ok = False
    for bid, b in g.blocks.items():
        c = g.term_cond(bid)
        cs = cmp_sides(c) if c is not None else None
        if cs and cs[0] == "<" and is_this_field(strip(cs[1], casts=True), "_index"):
            lim = strip(cs[2], casts=True)
            if isnode(lim) and lim["k"] == "BinaryOperator" and lim["op"] == "-" and const_val(lim["rhs"]) == 1 and is_this_field(strip(lim["lhs"], casts=True), "_capacity"):
                t_nodes = [g.node_ast(q) for q in straight_after(g, bid, "T")]
                f_nodes = [g.node_ast(q) for q in straight_after(g, bid, "F")]
                inc1 = any(isnode(x) and ((x["k"] == "CompoundAssignOperator" and x["op"] == "+=" and is_this_field(x["lhs"], "_index") and const_val(x["rhs"]) == 1) or
                                          (x["k"] == "UnaryOperator" and x["op"] == "++" and is_this_field(x["sub"], "_index"))) for x in t_nodes)
                zero = any(isnode(x) and x["k"] == "BinaryOperator" and x["op"] == "=" and is_this_field(x["lhs"], "_index") and const_val(x["rhs"]) == 0 for x in f_nodes)
                wrap_ok = inc1 and zero
    # the same advance written as one assignment: _index = (_index < _capacity - 1) ? _index + 1 : 0
    def unparen(e):
        e = strip(e, casts=True)
        while isnode(e) and e["k"] == "ParenExpr":
            e = strip(e.get("sub") or (e.get("c") or [None])[0], casts=True)
        return e
    for n in s.walk():
        if n["k"] == "BinaryOperator" and n["op"] == "=" and is_this_field(n["lhs"], "_index"):
            ce = unparen(n["rhs"])
            if isnode(ce) and ce["k"] == "ConditionalOperator":
                cs = cmp_sides(ce.get("cond"))
                lim = unparen(cs[2]) if cs else None
                if cs and cs[0] == "<" and is_this_field(unparen(cs[1]), "_index") and isnode(lim) and lim["k"] == "BinaryOperator" and lim["op"] == "-" and \
                        const_val(lim["rhs"]) == 1 and is_this_field(unparen(lim["lhs"]), "_capacity"):
                    t_, e_ = unparen(ce.get("then")), unparen(ce.get("else"))
                    wrap_ok = isnode(t_) and t_["k"] == "BinaryOperator" and t_["op"] == "+" and is_this_field(unparen(t_["lhs"]), "_index") and \
                        const_val(t_["rhs"]) == 1 and const_val(e_) == 0
    sp = npos(s, slot)
    zero, otherw = index_writes(s)
    adv = npos(s, zero + otherw)
    order_ok = bool(sp) and bool(adv) and not g.exists_path(adv, sp) and not g.exists_path(sp, [g.exit_node], avoid_nodes=adv)
    ctx.ob("C18.R3b", "BacktraceStorage::store:overwrite-oldest-then-advance", slot_ok and wrap_ok and order_ok,
           "when full, slot _index (the oldest) is overwritten and _index then advances by one with wrap at capacity-1 "
           "(slot: %s, wrap: %s, order: %s)" % (slot_ok, wrap_ok, order_ok), fn=s)
    # R3d: both arms store the event and the thread identity that were handed in
    pids = [p_["did"] for p_ in s.rec["params"]]
    def carries_all(n):
        return all(any(x["k"] == "DeclRefExpr" and x.get("did") == pid for x in walk(n)) for pid in pids)
    appc = [c for c in s.calls(r"std::vector<.*>::(emplace_back|push_back)") if is_this_field(call_obj(c), "_stored_events")]
    ste_vars = [vid for vid, i in s.var_inits().items() if isnode(i) and any(in_subtree(c, i) for c in slot)]
    wr = [c for c in s.calls(r"::operator=$") if c["k"] == "CXXOperatorCallExpr" and
          (var_ref(c["args"][0]) in ste_vars or any(in_subtree(sl, c["args"][0]) for sl in slot))]
    wrp = npos(s, wr)
    ok = bool(appc) and all(carries_all(c) for c in appc) and bool(wr) and all(carries_all(c["args"][1]) for c in wr) and \
        bool(sp) and not g.exists_path(sp, [g.exit_node], avoid_nodes=wrp)
    ctx.ob("C18.R3d", "BacktraceStorage::store:stores-what-was-given", ok,
           "the appended element and the overwritten slot are built from the event, the thread id and the thread name passed in, and "
           "the overwrite arm assigns the slot on every path", fn=s)
    # R3c: the overwrite arm needs a slot: unreachable when the capacity (hence the ring) is zero/empty
    zero_edges = []
    for bid, b in g.blocks.items():
        c = g.term_cond(bid)
        if c is None:
            continue
        core, neg = core_and_neg(c)
        lab = None  # label of the 'capacity is zero / ring empty' outcome
        cs_ = strip(core, casts=True)
        if is_this_field(cs_, "_capacity"):
            lab = "F"
        elif is_call(cs_, r"std::vector<.*>::empty$") and is_this_field(call_obj(cs_), "_stored_events"):
            lab = "T"
        else:
            nc = norm_cmp(core)
            if nc and isnode(core) and core["k"] == "BinaryOperator":
                sides = (core["lhs"], core["rhs"])
                subj = [x for x in sides if is_this_field(strip(x, casts=True), "_capacity") or
                        (is_call(strip(x, casts=True), r"std::vector<.*>::size$") and is_this_field(call_obj(strip(x, casts=True)), "_stored_events"))]
                zero = [x for x in sides if const_val(x) == 0]
                if subj and zero:
                    if nc[0] == "==":
                        lab = "T"
                    elif nc[0] == "!=":
                        lab = "F"
                    elif nc[0] == "<":  # 0 < capacity
                        lab = "F" if const_val(core["lhs"] if core["op"] == "<" else core["rhs"]) == 0 else None
        if lab is None:
            continue
        if neg:
            lab = other(lab)
        zero_edges.append((bid, other(lab)))  # forbid the 'non-zero' outcome: what remains is the zero outcome
    ok = bool(zero_edges) and bool(sp) and all(
        not g.exists_path([tnode(g, b)], sp, avoid_edges=[(b, l)]) and g.dominates([tnode(g, b)], p) for (b, l) in zero_edges[:1] for p in sp)
    ctx.ob("C18.R3c", "BacktraceStorage::store:no-overwrite-in-empty-ring", ok,
           "the overwrite arm indexes _stored_events[_index] only when the ring has at least one slot: a zero capacity never reaches it "
           "(capacity tests found: %d)" % len(zero_edges), fn=s)


def r4(ctx, facts, cfg):
    """frontend side of the backtrace: the requests that configure and flush the ring"""
    fns = facts.need("quill::LoggerImpl::init_backtrace", cfg, floor=4)
    for f in fns[:4]:
        g = f.g
        site = "init_backtrace<%s>" % f.name.split("LoggerImpl<")[1].split(">")[0]
        capp, lvlp = f.rec["params"][0]["did"], f.rec["params"][1]["did"]
        st = [n for n in f.walk() if (atomic_op(n) or {}).get("kind") == "store" and is_this_field(atomic_op(n)["obj"], "backtrace_flush_level")]
        ok = len(st) == 1 and var_ref(atomic_op(st[0])["value"]) == lvlp and not g.exists_path([g.entry_node], [g.exit_node], avoid_nodes=npos(f, st))
        ctx.ob("C18.R4a", site + ":flush-level-stored", ok,
               "the requested flush level is stored into backtrace_flush_level — the field the backend compares every dispatched "
               "statement's level with (R2d) — on every path", fn=f)
        calls = f.calls(r"^quill::LoggerImpl<.*>::log_statement<")
        decls = f.var_decls()
        ok = len(calls) == 1 and len(calls[0]["args"]) >= 3 and var_ref(calls[0]["args"][2]) == capp
        ev = []
        if calls:
            md = strip(calls[0]["args"][1], casts=True)
            mv = var_ref(md["sub"]) if isnode(md) and md["k"] == "UnaryOperator" and md["op"] == "&" else None
            src = decls.get(mv, {}).get("init")
            ev = [x["name"].split("::")[-1] for x in walk(src) if x["k"] == "DeclRefExpr" and x.get("dk") == "EnumConstant" and "MacroMetadata::" in x.get("name", "")] if isnode(src) else []
            fmt = [x.get("str") for x in walk(src) if x["k"] == "StringLiteral"] if isnode(src) else []
            ok = ok and ev == ["InitBacktrace"] and "{}" in fmt
        # retried until accepted: the only exit of the submit loop is the 'accepted' outcome
        acc = branches_on_call(f, r"^quill::LoggerImpl<.*>::log_statement<")
        ok = ok and bool(acc) and not g.exists_path([g.entry_node], npos(f, st), avoid_edges=[(b, t) for (b, t, c) in acc])
        ctx.ob("C18.R4b", site + ":capacity-request", ok,
               "the capacity is sent as the single argument of an InitBacktrace request whose template is \"{}\" (the backend parses the "
               "formatted text back into the capacity), retried until the queue accepts it (%s)" % ev, fn=f)
    for f in facts.need("quill::LoggerImpl::flush_backtrace", cfg, floor=4)[:4]:
        g = f.g
        site = "flush_backtrace<%s>" % f.name.split("LoggerImpl<")[1].split(">")[0]
        calls = f.calls(r"^quill::LoggerImpl<.*>::log_statement<")
        decls = f.var_decls()
        ev = []
        if calls:
            md = strip(calls[0]["args"][1], casts=True)
            mv = var_ref(md["sub"]) if isnode(md) and md["k"] == "UnaryOperator" and md["op"] == "&" else None
            src = decls.get(mv, {}).get("init")
            ev = [x["name"].split("::")[-1] for x in walk(src) if x["k"] == "DeclRefExpr" and x.get("dk") == "EnumConstant" and "MacroMetadata::" in x.get("name", "")] if isnode(src) else []
        acc = branches_on_call(f, r"^quill::LoggerImpl<.*>::log_statement<")
        ok = len(calls) == 1 and ev == ["FlushBacktrace"] and bool(acc) and not g.exists_path([g.entry_node], [g.exit_node], avoid_edges=[(b, t) for (b, t, c) in acc])
        ctx.ob("C18.R4c", site + ":flush-request", ok,
               "flush_backtrace submits a FlushBacktrace request and returns only once the queue accepted it (a dropping queue must not "
               "lose the request) (%s)" % ev, fn=f)


CSTRING_FNS = r"^(std::)?(strtoul|strtoull|strtol|strtoll|atoi|atol|atoll|strtod|strlen|strchr|strrchr|strstr|strcmp|strncmp|sscanf|puts|fputs|printf|fprintf)$"


def r4_buffer_is_not_a_c_string(ctx, facts, cfg):
    """R4d: the formatted text of an event lives in a growing buffer that is reused from statement to statement and has no terminator:
    the bytes behind size() belong to earlier statements. Wherever the backend takes its data() pointer, the consumer is told the length
    as well (string / string_view from pointer and size, begin()/end(), an index below size()) — it is never handed to something that
    reads up to a NUL (the backtrace capacity '2' followed by stale digits would be read as 2000...)."""
    n = 0
    bad = []
    for f in facts.fns:
        if f.config != cfg or f.rec.get("main") or not f.short.startswith(BW):
            continue
        for c in f.walk():
            if not (c["k"] == "CXXMemberCallExpr" and re.search(r"(basic_memory_buffer|buffer)<char.*>::data$", c.get("callee") or "")):
                continue
            obj = call_obj(c)
            if not any(x["k"] == "MemberExpr" and x.get("mname") == "formatted_msg" for x in walk(obj)) and \
                    not any(x["k"] == "DeclRefExpr" and "formatted_msg" in (x.get("name") or "") for x in walk(obj)):
                continue
            n += 1
            cons = None
            for a in f.ancestors(c):
                if a["k"] in ("CallExpr", "CXXMemberCallExpr", "CXXOperatorCallExpr", "CXXConstructExpr", "CXXTemporaryObjectExpr", "InitListExpr", "ArraySubscriptExpr", "BinaryOperator"):
                    cons = a
                    break
            if cons is None:
                bad.append("%s@%s (pointer kept without a length)" % (f.short.split("::")[-1], c["loc"].split(":", 1)[1]))
                continue
            if cons["k"] in ("ArraySubscriptExpr", "BinaryOperator"):
                continue
            args = [a for a in (cons.get("args") or cons.get("c") or []) if not (isnode(a) and a["k"] == "CXXDefaultArgExpr")]
            if is_call(cons, CSTRING_FNS) or len(args) < 2:
                bad.append("%s@%s -> %s" % (f.short.split("::")[-1], c["loc"].split(":", 1)[1], short(cons.get("callee") or cons["k"]).split("::")[-1]))
    ctx.floor("C18.R4d", "uses of formatted_msg's data() in the backend", n, 4)
    ctx.ob("C18.R4d", "BackendWorker:formatted-text-never-read-as-c-string", not bad,
           "each of the %d places that take the data() pointer of an event's formatted text pass the length along (none reads up to a "
           "terminator the buffer does not have): %s" % (n, "; ".join(bad) or "ok"))
