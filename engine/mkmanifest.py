#!/usr/bin/env python3
"""Regenerates /verif/MANIFEST.json from the rule modules that exist (engine/rules/cNN.py).
A property without a rule module is listed under not_applicable with the reason below."""
import importlib, json, os, sys
sys.path.insert(0, os.path.dirname(os.path.abspath(__file__)))
VERIF = os.path.dirname(os.path.dirname(os.path.abspath(__file__)))

NOT_APPLICABLE = {
}
PENDING = "check not built yet (see DESIGN.md section 4 for the plan)"

def main():
    props = [json.loads(l) for l in open(os.path.join(VERIF, "properties.jsonl"))]
    checks, na = [], []
    for p in props:
        pid = p["id"]
        path = os.path.join(VERIF, "engine", "rules", pid.lower() + ".py")
        if pid in NOT_APPLICABLE or not os.path.exists(path):
            na.append({"property_id": pid, "reason": NOT_APPLICABLE.get(pid, PENDING)})
            continue
        mod = importlib.import_module("rules." + pid.lower())
        checks.append({
            "property_id": pid,
            "quick_cmd": "python3 engine/qcheck.py %s --tier quick" % pid,
            "thorough_cmd": "python3 engine/qcheck.py %s --tier thorough" % pid,
            "evidence_file": "evidence/%s.json" % pid,
            "replay_cmd_template": "python3 engine/qcheck.py --replay {path}",
            "engine": "qcheck",
            "level_claimed": {
                "category": "other",
                "text": "Static analysis: " + mod.EXPLANATION + " These are necessary structural conditions of the property, decided for "
                        "every path of every analysed template instantiation; they are not a proof of the behavioural statement.",
                "design_ref": "DESIGN.md section 4 " + pid,
            },
            "level_note": "Not decided: " + mod.NOT_DECIDED + " Trusted base: clang 14 front end/CFG builder, engine/qfacts.cc, engine/qlib.py, "
                          "the rule tables in engine/rules/%s.py. Assumes: %s" % (pid.lower(), "; ".join(getattr(mod, "ASSUMPTIONS", [])) or "nothing further"),
            "technique": getattr(mod, "TECHNIQUE", "static analysis: custom checker over clang AST/CFG facts (path, ownership, memory-order, table rules)"),
        })
    m = {
        "version": 1,
        "setup_cmd": "make -C engine",
        "hooks": {"guard": "QUILL_VERIF", "enable": "no hooks: the analysis parses /repo/include as it is (guard name reserved, unused)",
                  "baseline_off_cmd": "cmake --build /repo/_build -j16 && ctest --test-dir /repo/_build -j8 --timeout 900",
                  "source_commits": [], "add_only": True},
        "engines": [
            {"name": "qfacts", "path": "engine/qfacts.cc", "serves_properties": [c["property_id"] for c in checks],
             "kind_free_text": "clang-14 front-end plugin: resolved AST + CFG fact extractor over witness translation units that include /repo/include"},
            {"name": "qcheck", "path": "engine/qcheck.py", "serves_properties": [c["property_id"] for c in checks],
             "kind_free_text": "Python rule engine: path / ownership / memory-order / table-agreement / layout / effect rules over the extracted facts"},
        ],
        "checks": checks,
        "notes": "Technique family: static analysis only. Exit 2 = analysis broken (anchor vanished, floor not reached): never a pass, never a violation. "
                 "Genuine defects found and repaired by fix: commits are listed in known_findings.txt. See DESIGN.md.",
        "not_applicable": na,
    }
    json.dump(m, open(os.path.join(VERIF, "MANIFEST.json"), "w"), indent=1)
    print("claimed:", [c["property_id"] for c in checks])
    print("not applicable:", [n["property_id"] for n in na])

main()
