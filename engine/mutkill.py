#!/usr/bin/env python3
"""mutkill — triage aid for the survivors of engine/mutsample.py (not a MANIFEST command, not a check, decides nothing).

A surviving generic mutant matters only if it is a *realistic* change: one the pinned test suite does not already reject. For each
survivor in a sampler log this tool applies the mutant to a scratch copy of /repo/include, compiles the named unit / integration
test sources of /repo/test against it (-O0; the common test objects are taken from /repo/_build) and runs them:
   TESTS-KILL  the suite rejects the change (low priority for a rule)
   TESTS-PASS  the change compiles and the named tests pass: a candidate necessary condition no rule and no test looks at
usage: mutkill.py <sampler.log> --tests unit_tests/PatternFormatterTest.cpp[,integration_tests/X.cpp] [--jobs 4] [--only substr]"""
import argparse, os, re, shutil, subprocess, sys, tempfile
from concurrent.futures import ThreadPoolExecutor
COMMON = ["TestMain.cpp", "TestUtilities.cpp", "DocTestExtensions.cpp"]


def survivors(log):
    out = []
    lines = open(log).read().split("\n")
    for i, l in enumerate(lines):
        m = re.match(r"SURVIVOR \S+ (\S+):(\d+) \((.*?)\) \[(\w+)\]", l)
        if m and i + 2 < len(lines):
            out.append(dict(file=m.group(1), line=int(m.group(2)), fn=m.group(3), kind=m.group(4),
                            old=lines[i + 1].strip()[2:].strip(), new=lines[i + 2].strip()[2:].strip()))
    return out


def common_objects(tmp):
    objs = []
    for c in COMMON:
        o = os.path.join(tmp, c + ".o")
        r = subprocess.run(["g++", "-std=gnu++17", "-O0", "-w", "-I/repo/test/misc", "-I/repo/test/bundled", "-I/repo/include", "-c",
                            "/repo/test/misc/" + c, "-o", o], capture_output=True, text=True)
        if r.returncode != 0:
            raise SystemExit("cannot build " + c + ": " + r.stderr[-400:])
        objs.append(o)
    return objs


def run(m, tests, objs):
    tmp = tempfile.mkdtemp(prefix="qv-mk-")
    try:
        shutil.copytree("/repo/include", os.path.join(tmp, "include"))
        p = os.path.join(tmp, "include", "quill", m["file"])
        ls = open(p).read().split("\n")
        if m["old"] not in ls[m["line"] - 1]:
            return m, "STALE (line changed since the sampler ran)"
        ls[m["line"] - 1] = ls[m["line"] - 1].replace(m["old"], m["new"], 1)
        open(p, "w").write("\n".join(ls))
        for t in tests:
            exe = os.path.join(tmp, "t")
            r = subprocess.run(["g++", "-std=gnu++17", "-O0", "-w", "-pthread", "-I/repo/test/misc", "-I/repo/test/bundled", "-I/repo/test/unit_tests/..",
                                "-I" + os.path.join(tmp, "include"), "/repo/test/" + t] + objs + ["-o", exe], capture_output=True, text=True)
            if r.returncode != 0:
                return m, "DOES-NOT-COMPILE with " + t
            try:
                r = subprocess.run([exe], capture_output=True, text=True, errors="replace", timeout=300, cwd=tmp)
            except subprocess.TimeoutExpired:
                return m, "TESTS-KILL (%s hangs)" % t
            if r.returncode != 0:
                return m, "TESTS-KILL (%s)" % t
        return m, "TESTS-PASS"
    finally:
        shutil.rmtree(tmp, ignore_errors=True)


def main():
    ap = argparse.ArgumentParser()
    ap.add_argument("log"); ap.add_argument("--tests", required=True); ap.add_argument("--jobs", type=int, default=4); ap.add_argument("--only", default="")
    a = ap.parse_args()
    ms = [m for m in survivors(a.log) if a.only in m["file"]]
    tests = [l.strip() for l in open(a.tests[1:]) if l.strip() and not l.startswith("#")] if a.tests.startswith("@") else a.tests.split(",")
    tmp = tempfile.mkdtemp(prefix="qv-mkc-")
    try:
        objs = common_objects(tmp)
        with ThreadPoolExecutor(a.jobs) as ex:
            for m, res in ex.map(lambda m: run(m, tests, objs), ms):
                print("%-14s %s:%d [%s]  %s  ->  %s" % (res.split(" ")[0], m["file"], m["line"], m["kind"], m["old"][:80], m["new"][:80]) + ("" if " " not in res else "   " + res.split(" ", 1)[1]), flush=True)
    finally:
        shutil.rmtree(tmp, ignore_errors=True)
    return 0


if __name__ == "__main__":
    sys.exit(main())
