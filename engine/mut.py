#!/usr/bin/env python3
"""mut — run checks against a mutated scratch copy of /repo/include (never touches /repo).

usage: mut.py --ids C01,C02 [--tier quick] (--patch file.diff | --sub FILE 'old' 'new' [--sub ...])
Prints per id the exit code and the VIOLATION / ANALYSIS-BROKEN lines. Scratch copy is removed."""
import argparse, os, shutil, subprocess, sys, tempfile

VERIF = os.path.dirname(os.path.dirname(os.path.abspath(__file__)))

def main():
    ap = argparse.ArgumentParser()
    ap.add_argument("--ids", required=True)
    ap.add_argument("--tier", default="quick")
    ap.add_argument("--patch")
    ap.add_argument("--sub", nargs=3, action="append", metavar=("FILE", "OLD", "NEW"))
    ap.add_argument("--keep", action="store_true")
    ap.add_argument("-v", action="store_true")
    a = ap.parse_args()
    tmp = tempfile.mkdtemp(prefix="qv-")
    try:
        shutil.copytree("/repo/include", os.path.join(tmp, "include"))
        if a.patch:
            r = subprocess.run(["patch", "-p1", "-s", "-d", tmp, "-i", os.path.abspath(a.patch)], capture_output=True, text=True)
            if r.returncode != 0:
                print("PATCH FAILED", r.stdout, r.stderr); return 3
        for (f, old, new) in a.sub or []:
            p = os.path.join(tmp, "include", "quill", f)
            s = open(p).read()
            if s.count(old) != 1:
                print("SUB FAILED: %d occurrences of %r in %s" % (s.count(old), old, f)); return 3
            open(p, "w").write(s.replace(old, new))
        env = dict(os.environ, QV_SRC=os.path.join(tmp, "include"), QV_OUT=os.path.join(tmp, "out"))
        rc_all = 0
        for pid in a.ids.split(","):
            r = subprocess.run([sys.executable, os.path.join(VERIF, "engine", "qcheck.py"), pid, "--tier", a.tier],
                               capture_output=True, text=True, env=env, cwd=VERIF)
            lines = [l for l in r.stdout.splitlines() if a.v or l.startswith(("VIOLATION", "ANALYSIS-BROKEN", "KNOWN", "  C"))]
            print("%s rc=%d" % (pid, r.returncode))
            for l in lines[:12]:
                print("   " + l[:300])
            if r.returncode not in (0, 1, 2) or (a.v and r.stderr):
                print(r.stderr[-2000:])
            rc_all = max(rc_all, r.returncode)
        return rc_all
    finally:
        if not a.keep:
            shutil.rmtree(tmp, ignore_errors=True)

if __name__ == "__main__":
    sys.exit(main())
